import SdbModel.Model.Reconciler
import SdbModel.Generated.RecParams

/-!
# C16 — Reconciler retry pacing and WaitUntilReconciled contract

> A failed operation is retried, never sooner than the configured minimum
> backoff after the failure, with waits that do not shrink over consecutive
> failures of the same object and are capped by the configured maximum (…), and
> the backoff starts over after the object changes or succeeds.
> WaitUntilReconciled(rev) returns without error only after every change up to
> rev has been attempted at least once, and the retry low-watermark it reports
> is zero exactly when no failed object awaits retry, otherwise the revision of
> the oldest change among the failed ones.

Theorems over `Model.Reconciler` (backoff arithmetic over ℕ; the float64
rounding of `exponentialBackoff.Duration` is in the trusted base).
-/
namespace Sdb
open Rec

/-! ## backoff -/

theorem C16_backoff_le_max (minB maxB n : Nat) : backoff minB maxB n ≤ maxB := by
  unfold backoff; simp only; split <;> omega

theorem C16_backoff_ge_min (minB maxB n : Nat) (h : minB ≤ maxB) : minB ≤ backoff minB maxB n := by
  unfold backoff; simp only
  have : minB ≤ minB * 2 ^ n := Nat.le_mul_of_pos_right _ (Nat.pow_pos (by omega))
  split <;> omega

theorem C16_backoff_monotone (minB maxB n m : Nat) (h : n ≤ m) :
    backoff minB maxB n ≤ backoff minB maxB m := by
  unfold backoff; simp only
  have hp : 2 ^ n ≤ 2 ^ m := Nat.pow_le_pow_right (by omega) h
  have : minB * 2 ^ n ≤ minB * 2 ^ m := Nat.mul_le_mul_left _ hp
  split <;> split <;> omega

/-! ## retries.Add / Clear -/

/-- the item `retryAdd` leaves in the map for `obj.id`: the revision of the ORIGINAL change is kept
    over the retries of an item (F15) -/
theorem C16_retryAdd_item (r : R) (obj : RObj) (rev origRev : Nat) (del : Bool) :
    ∃ it, (r.retryAdd obj rev origRev del).items.find? (·.id = obj.id) = some it ∧
      it.inQueue = true ∧ it.inRevQueue = true ∧
      it.origRev = (match r.items.find? (·.id = obj.id) with | some i => i.origRev | none => origRev) ∧
      it.numRetries = (match r.items.find? (·.id = obj.id) with | some i => i.numRetries | none => 0) + 1 ∧
      it.retryAt = r.now + backoff r.cfg.minB r.cfg.maxB it.numRetries := by
  unfold R.retryAdd
  simp only
  refine ⟨{ id := obj.id, obj, rev,
            origRev := (match r.items.find? (·.id = obj.id) with | some i => i.origRev | none => origRev), delete := del,
            retryAt := r.now + backoff r.cfg.minB r.cfg.maxB ((match r.items.find? (·.id = obj.id) with | some i => i.numRetries | none => 0) + 1),
            numRetries := (match r.items.find? (·.id = obj.id) with | some i => i.numRetries | none => 0) + 1,
            inQueue := true, inRevQueue := true }, ?_, rfl, rfl, rfl, rfl, rfl⟩
  rw [List.find?_append]
  have : (List.filter (fun x => decide (x.id ≠ obj.id)) r.items).find? (fun x => decide (x.id = obj.id)) = none := by
    rw [List.find?_eq_none]
    intro x hx
    simp at hx
    simp [hx.2]
  rw [this]
  simp only [Option.none_or, List.find?_cons, decide_true]
  rfl

/-- never sooner than the minimum backoff, never later than the maximum -/
theorem C16_retry_not_before_min (r : R) (obj : RObj) (rev origRev : Nat) (del : Bool)
    (hcfg : r.cfg.minB ≤ r.cfg.maxB) :
    ∃ it, (r.retryAdd obj rev origRev del).items.find? (·.id = obj.id) = some it ∧
      r.now + r.cfg.minB ≤ it.retryAt ∧ it.retryAt ≤ r.now + r.cfg.maxB := by
  obtain ⟨it, h1, _, _, _, _, h6⟩ := C16_retryAdd_item r obj rev origRev del
  refine ⟨it, h1, ?_, ?_⟩
  · rw [h6]; have := C16_backoff_ge_min r.cfg.minB r.cfg.maxB it.numRetries hcfg; omega
  · rw [h6]; have := C16_backoff_le_max r.cfg.minB r.cfg.maxB it.numRetries; omega

private theorem retryClear_items (r : R) (id : Nat) :
    (r.retryClear id).items = r.items.filter (·.id ≠ id) := by
  unfold R.retryClear
  split
  · rename_i h
    rw [List.find?_eq_none] at h
    symm
    rw [List.filter_eq_self]
    intro a ha
    have := h a ha
    simpa using this
  · rfl

/-- Clear forgets the object and its retry count: the backoff starts over -/
theorem C16_backoff_resets_on_clear (r : R) (obj : RObj) (rev origRev : Nat) (del : Bool) :
    ∃ it, ((r.retryClear obj.id).retryAdd obj rev origRev del).items.find? (·.id = obj.id) = some it ∧
      it.numRetries = 1 := by
  obtain ⟨it, h1, _, _, _, h5, _⟩ := C16_retryAdd_item (r.retryClear obj.id) obj rev origRev del
  refine ⟨it, h1, ?_⟩
  rw [h5, retryClear_items]
  have : (List.filter (fun x => decide (x.id ≠ obj.id)) r.items).find? (fun x => decide (x.id = obj.id)) = none := by
    rw [List.find?_eq_none]
    intro x hx
    simp at hx
    simp [hx.2]
  rw [this]

/-- consecutive failures without a Clear: the retry count grows, so (by
    `C16_backoff_monotone`) the wait does not shrink -/
theorem C16_retry_count_grows (r : R) (obj : RObj) (rev origRev rev' origRev' : Nat) (del : Bool) :
    ∃ it it', (r.retryAdd obj rev origRev del).items.find? (·.id = obj.id) = some it ∧
      ((r.retryAdd obj rev origRev del).retryAdd obj rev' origRev' del).items.find? (·.id = obj.id) = some it' ∧
      it'.numRetries = it.numRetries + 1 := by
  obtain ⟨it, h1, _, _, _, _, _⟩ := C16_retryAdd_item r obj rev origRev del
  obtain ⟨it', h1', _, _, _, h5', _⟩ := C16_retryAdd_item (r.retryAdd obj rev origRev del) obj rev' origRev' del
  refine ⟨it, it', h1, h1', ?_⟩
  rw [h5', h1]

/-! ## the retry timer (retries.resetTimer) -/

/-- after `resetTimer` the timer is armed exactly when the time queue is
    non-empty, and then for the head's retry time -/
theorem C16_timer_armed_iff_queue_nonempty (r : R) :
    (∀ h, r.head = some h → r.resetTimer.timer = .armed h.retryAt) ∧
    (r.head = none → r.resetTimer.timer = .none ∨ r.resetTimer.timer = .stopped) := by
  unfold R.resetTimer newTimer
  constructor
  · intro h hh
    simp only [hh]
    cases r.timer <;> rfl
  · intro hh
    simp only [hh]
    cases r.timer <;> simp

/-! ## retries run only when due -/

/-- `processRetries` does nothing while the head of the time queue is not yet due (and nothing
    when the queue is empty or the round is full): a failed operation is never retried before
    its `retryAt`, which `C16_retry_not_before_min` puts at least the minimum backoff after the
    failure -/
theorem C16_no_retry_before_due (r : R) (fuel : Nat)
    (h : r.head = none ∨ (∃ it, r.head = some it ∧ it.retryAt > r.now) ∨ r.numReconciled ≥ r.cfg.roundSize) :
    r.processRetries fuel = r := by
  cases fuel with
  | zero => rfl
  | succ n =>
    unfold R.processRetries
    rcases h with h | ⟨it, h, hlt⟩ | h
    · split
      · rfl
      · simp [h]
    · split
      · rfl
      · simp only [h]
        simp [hlt]
    · simp [h]

/-- when a retry does run, it is the head of the time queue and it is due -/
theorem C16_retry_runs_head_when_due (r : R) (n : Nat) (it : Item)
    (hfull : ¬ r.numReconciled ≥ r.cfg.roundSize) (hh : r.head = some it) (hdue : ¬ it.retryAt > r.now) :
    r.processRetries (n + 1) =
      R.processRetries { (r.retryPop.processSingle it.obj it.rev it.delete) with
        numReconciled := (r.retryPop.processSingle it.obj it.rev it.delete).numReconciled + 1 } n := by
  rw [R.processRetries]
  simp [hfull, hh, hdue]

/-! ## low watermark -/

private theorem foldl_min_le (l : List Nat) (x : Nat) : l.foldl min x ≤ x ∧ ∀ y ∈ l, l.foldl min x ≤ y := by
  induction l generalizing x with
  | nil => simp
  | cons a as ih =>
    simp only [List.foldl_cons, List.mem_cons]
    obtain ⟨h1, h2⟩ := ih (min x a)
    refine ⟨by omega, ?_⟩
    intro y hy
    rcases hy with rfl | hy
    · omega
    · exact h2 y hy

private theorem foldl_min_mem (l : List Nat) (x : Nat) : l.foldl min x = x ∨ l.foldl min x ∈ l := by
  induction l generalizing x with
  | nil => simp
  | cons a as ih =>
    simp only [List.foldl_cons, List.mem_cons]
    rcases ih (min x a) with h | h
    · rw [h]
      rcases Nat.le_total x a with hxa | hxa
      · left; omega
      · right; left; omega
    · right; right; exact h

/-- the low-watermark is zero exactly when no failed object awaits retry
    (revisions are positive), otherwise the smallest original revision among them -/
theorem C16_low_watermark_def (r : R) (hpos : ∀ i ∈ r.items, 0 < i.origRev) :
    (r.lowWatermark = 0 ↔ r.items.filter (·.inRevQueue) = []) ∧
    (∀ i ∈ r.items.filter (·.inRevQueue), r.lowWatermark ≤ i.origRev) ∧
    (r.items.filter (·.inRevQueue) ≠ [] → ∃ i ∈ r.items.filter (·.inRevQueue), r.lowWatermark = i.origRev) := by
  unfold R.lowWatermark
  generalize hq : r.items.filter (·.inRevQueue) = q
  have hq' : ∀ i ∈ q, 0 < i.origRev := by
    intro i hi; rw [← hq] at hi; exact hpos i (List.mem_filter.mp hi).1
  cases q with
  | nil => simp
  | cons a as =>
    simp only [List.map_cons]
    obtain ⟨h1, h2⟩ := foldl_min_le (as.map (·.origRev)) a.origRev
    have hm := foldl_min_mem (as.map (·.origRev)) a.origRev
    refine ⟨⟨?_, by simp⟩, ?_, ?_⟩
    · intro h0
      rcases hm with hm | hm
      · have := hq' a (List.mem_cons_self ..); omega
      · rw [h0] at hm
        simp only [List.mem_map] at hm
        obtain ⟨i, hi, hi0⟩ := hm
        have := hq' i (List.mem_cons_of_mem _ hi); omega
    · intro i hi
      simp only [List.mem_cons] at hi
      rcases hi with rfl | hi
      · exact h1
      · exact h2 _ (List.mem_map_of_mem hi)
    · intro _
      rcases hm with hm | hm
      · exact ⟨a, List.mem_cons_self .., hm⟩
      · simp only [List.mem_map] at hm
        obtain ⟨i, hi, hie⟩ := hm
        exact ⟨i, List.mem_cons_of_mem _ hi, hie.symm⟩

/-! ## non-vacuity -/
example : backoff 100 1000 1 = 200 ∧ backoff 100 1000 4 = 1000 := by decide
example : (({} : R).retryAdd { id := 1, data := 5, kind := .pending, sid := 1, other := 0, rev := 3 } 4 3 false).lowWatermark = 3 := by decide

/-- the structural facts about reconciler/incremental.go and reconciler/retries.go that the model
    builds in — the backoff formula, its cap and the conditions under which `processRetries` runs a retry — hold of the source as it is today (regenerated by `tools/extract` on every run) -/
theorem C16_source_facts : Gen.recFacts = Rec.expectedFacts := by decide

end Sdb
