import SdbModel.Lemmas.Serial
import SdbModel.Model.Table
import SdbModel.Generated.Protocol

/-!
# C02 — Commit is atomic across tables; Abort leaves no trace

> All writes of one write transaction, over every table it targets, become
> visible to other transactions at a single instant during Commit: any snapshot
> contains either all of them or none, and the snapshot returned by Commit
> contains them.  Before Commit and after Abort none of them is visible to any
> other transaction, and an aborted transaction leaves nothing behind (…).
-/
namespace Sdb
open Serial

/-- a reader's snapshot is the root: one atomic load (fact read off DB.ReadTxn) -/
theorem C02_reader_is_single_load : Gen.protocol.readIsSingleLoad = true := by decide

/-- **single instant**: the committed state changes only in the one `store`
    step of a transaction, and that step brings ALL of its tables to their new
    value at once — every other step (lock acquisition, root load, private
    writes, abort, releases, other threads starting) leaves every snapshot
    unchanged -/
theorem C02_visibility_single_instant (s s' : State) (h : Step s s') :
    s'.root = s.root ∨
    (∃ (i : Nat) (t : Txn), s.txns[i]? = some t ∧ t.phase = .loaded ∧ t.commit = true ∧
      ∀ x, s'.root x = if x ∈ t.tabs then t.old x + 1 else s.root x) := by
  cases h with
  | store i t hi hp hc => exact Or.inr ⟨i, t, hi, hp, hc, fun x => rfl⟩
  | acquire => exact Or.inl rfl
  | load => exact Or.inl rfl
  | abort => exact Or.inl rfl
  | release => exact Or.inl rfl
  | finish => exact Or.inl rfl
  | spawn => exact Or.inl rfl

/-- **all or none**: in every reachable state, for every table, the snapshot
    holds exactly the writes of the transactions that have passed their commit
    point — never a transaction's write to one table without its writes to the others -/
theorem C02_all_or_none (s : State) (hr : Reachable s) (x : Nat) : s.root x = s.commits x :=
  (inv_reachable s hr).serial x

/-- **Abort leaves no trace** in the committed state or the ghost commit counts -/
theorem C02_abort_no_trace (s : State) (i : Nat) (t : Txn) (hi : s.txns[i]? = some t)
    (hp : t.phase = .loaded) (hc : t.commit = false) :
    ∀ s', s' = { s with txns := setTxn s.txns i { t with phase := .stored } } →
      Step s s' ∧ s'.root = s.root ∧ s'.commits = s.commits := by
  intro s' hs'
  subst hs'
  exact ⟨Step.abort s i t hi hp hc, rfl, rfl⟩

/-- at the table layer (Model.Table) Abort restores exactly the committed root,
    including every index, the graveyard, revisions and initializer state -/
theorem C02_table_abort_restores (db : Tbl.DB) : (db.abort).root = db.root ∧ (db.abort).wtxn = none := ⟨rfl, rfl⟩

/-- … and before Commit nothing of the transaction is in the committed root -/
theorem C02_table_uncommitted_invisible (db : Tbl.DB) (lockM lockA : Bool) :
    (db.beginW lockM lockA).root = db.root := rfl

end Sdb
