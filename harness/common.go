package main

import (
	"bufio"
	"crypto/sha256"
	"encoding/hex"
	"encoding/json"
	"fmt"
	"math/rand/v2"
	"os"
	"sort"
	"strings"
)

// Out writes the op/obs line protocol and collects coverage statistics.
type Out struct {
	w         *bufio.Writer
	Suite     string
	Seed      uint64
	Tier      string
	Cases     int
	Ops       int
	OpHist    map[string]int
	ObsHist   map[string]int // error kinds / notable observation classes
	distinct  map[[32]byte]struct{}
	curLines  []string
	curNonTrv bool
	Samples   [][]string
	Failures  []Failure
	Notes     map[string]int
	caseOpen  bool
}

// Failure is an oracle failure: the implementation's own observations violate
// the property's specification on a concrete input.
type Failure struct {
	Property string            `json:"property"`
	Kind     string            `json:"kind"`
	Case     int               `json:"case"`
	Features map[string]string `json:"features"`
	Detail   string            `json:"detail"`
	Lines    []string          `json:"lines"`
}

func NewOut(path, suite string, seed uint64, tier string) *Out {
	f, err := os.Create(path)
	if err != nil {
		panic(err)
	}
	return &Out{
		w: bufio.NewWriterSize(f, 1<<20), Suite: suite, Seed: seed, Tier: tier,
		OpHist: map[string]int{}, ObsHist: map[string]int{}, distinct: map[[32]byte]struct{}{},
		Notes: map[string]int{}, Failures: []Failure{}, Samples: [][]string{},
	}
}

func (o *Out) endCase() {
	if !o.caseOpen {
		return
	}
	if o.curNonTrv {
		h := sha256.Sum256([]byte(strings.Join(o.curLines, "\n")))
		o.distinct[h] = struct{}{}
	}
	if len(o.Samples) < 3 && o.curNonTrv {
		n := len(o.curLines)
		if n > 40 {
			n = 40
		}
		o.Samples = append(o.Samples, append([]string{}, o.curLines[:n]...))
	}
	o.caseOpen = false
}

// Case starts a new case; the model driver resets its state.
func (o *Out) Case(args ...any) {
	o.endCase()
	o.Cases++
	o.caseOpen = true
	o.curLines = o.curLines[:0]
	o.curNonTrv = false
	line := fmt.Sprintf("case %d", o.Cases)
	if len(args) > 0 {
		line += " " + fmt.Sprint(args...)
	}
	fmt.Fprintln(o.w, line)
	o.curLines = append(o.curLines, line)
}

// NonTrivial marks the current case as non-trivial by the suite's rule.
func (o *Out) NonTrivial() { o.curNonTrv = true }

func (o *Out) Op(format string, args ...any) {
	line := "op " + fmt.Sprintf(format, args...)
	o.Ops++
	kind := strings.SplitN(line[3:], " ", 2)[0]
	o.OpHist[kind]++
	fmt.Fprintln(o.w, line)
	o.w.Flush() // the op about to run is on disk: a hang can be attributed to it
	o.curLines = append(o.curLines, line)
}

func (o *Out) Obs(format string, args ...any) {
	line := "obs " + fmt.Sprintf(format, args...)
	fmt.Fprintln(o.w, line)
	o.curLines = append(o.curLines, line)
}

func (o *Out) Fail(property, kind string, features map[string]string, detail string) {
	lines := append([]string{}, o.curLines...)
	if len(lines) > 400 {
		lines = lines[len(lines)-400:]
	}
	o.Failures = append(o.Failures, Failure{Property: property, Kind: kind, Case: o.Cases, Features: features, Detail: detail, Lines: lines})
}

func (o *Out) Close(statsPath string) {
	o.endCase()
	o.w.Flush()
	st := map[string]any{
		"suite": o.Suite, "seed": o.Seed, "tier": o.Tier,
		"cases": o.Cases, "ops": o.Ops, "distinct_nontrivial": len(o.distinct),
		"op_hist": o.OpHist, "obs_hist": o.ObsHist, "samples": o.Samples,
		"failures": o.Failures, "notes": o.Notes,
	}
	b, _ := json.MarshalIndent(st, "", " ")
	if err := os.WriteFile(statsPath, b, 0o644); err != nil {
		panic(err)
	}
}

func hx(b []byte) string { return "x" + hex.EncodeToString(b) }

func unhx(s string) []byte {
	b, err := hex.DecodeString(strings.TrimPrefix(s, "x"))
	if err != nil {
		panic(err)
	}
	return b
}

func newRand(seed uint64, stream uint64) *rand.Rand {
	return rand.New(rand.NewPCG(seed, stream))
}

// --- structured key generators -------------------------------------------

var alphabets = [][]byte{
	{0x00, 0x01, 0x02, 0xff},          // escape bytes
	{'a', 'b'},                        // tiny: forces shared prefixes
	{0x00, 'a'},                       // zero + letter
	{'a', 'b', 'c', 0x00, 0x01, 0xff}, // mixed
}

// genKey draws a key with lots of prefix relations; may be empty.
func genKey(r *rand.Rand, maxLen int) []byte {
	var alpha []byte
	switch r.IntN(6) {
	case 0, 1, 2, 3:
		alpha = alphabets[r.IntN(len(alphabets))]
	default:
		alpha = nil // dense: any byte
	}
	n := r.IntN(maxLen + 1)
	if r.IntN(8) == 0 {
		n = 0
	}
	k := make([]byte, n)
	for i := range k {
		if alpha == nil {
			k[i] = byte(r.IntN(256))
		} else {
			k[i] = alpha[r.IntN(len(alpha))]
		}
	}
	return k
}

func sortedKeys[V any](m map[string]V) []string {
	ks := make([]string, 0, len(m))
	for k := range m {
		ks = append(ks, k)
	}
	sort.Strings(ks)
	return ks
}

func sign(n int) int {
	switch {
	case n < 0:
		return -1
	case n > 0:
		return 1
	}
	return 0
}
