package main

import (
	"encoding/json"
	"fmt"
	"iter"
	"maps"
	"math/rand/v2"
	"reflect"
	"sort"
	"strconv"
	"strings"

	"github.com/cilium/statedb/part"
	"go.yaml.in/yaml/v3"
)

func init() {
	suites["pmap"] = SuiteDef{Gen: genPMap, NewExec: func(string) Exec { return &pmapExec{} }}
}

func genPMap(cfg Config, emit func(string, bool, []string)) {
	n := 300
	steps := 40
	if cfg.Thorough() {
		n, steps = 3000, 120
	}
	for c := 0; c < n; c++ {
		r := newRand(cfg.Seed, uint64(1700+c))
		ascii := c%3 == 0
		highBytes := c%3 == 2 // keys over {a, b, 0xff}: the largest branch byte under small nodes
		var used [][]byte
		key := func() []byte {
			if len(used) > 0 && r.IntN(2) == 0 {
				k := used[r.IntN(len(used))]
				switch r.IntN(5) {
				case 0:
					if len(k) > 0 {
						return k[:r.IntN(len(k))]
					}
				case 1:
					return append(append([]byte{}, k...), 'a')
				}
				return k
			}
			var k []byte
			if ascii {
				k = make([]byte, r.IntN(4))
				for i := range k {
					k[i] = "ab"[r.IntN(2)]
				}
				if r.IntN(6) == 0 {
					k = append(k, byte('c'+r.IntN(20))) // wider fan-out
				}
			} else if highBytes {
				k = make([]byte, r.IntN(4))
				for i := range k {
					k[i] = []byte{'a', 'b', 0xff, 0xff}[r.IntN(4)]
				}
			} else {
				k = genKey(r, 4)
			}
			used = append(used, k)
			return k
		}
		var ops []string
		add := func(f string, a ...any) { ops = append(ops, fmt.Sprintf(f, a...)) }
		add("mnew")
		nm, ns := 1, 0
		inTxn := false
		if c%10 == 3 {
			// one family of versions built linearly (they share one recycled transaction object), then
			// the recycled transaction is dropped (a delete that shrinks an old version to a single
			// element, or a map transaction's commit) and old and new versions are written in turn
			ks := []string{"a", "b", "c", "d", "e"}
			r.Shuffle(len(ks), func(i, j int) { ks[i], ks[j] = ks[j], ks[i] })
			for i, k := range ks[:4] {
				add("mset %d %s %d", nm-1, hx([]byte(k)), i+1)
				nm++
			}
			m1, m2, m4 := nm-4, nm-3, nm-1
			_ = m1
			for round := 0; round < 2; round++ {
				if r.IntN(2) == 0 {
					add("mdel %d %s", m2, hx([]byte(ks[r.IntN(2)])))
					nm++
				} else {
					add("mtxn %d", m4)
					add("tset %s 5", hx([]byte(ks[4])))
					add("tcommit")
					nm++
				}
				add("mset %d %s 9", []int{m1, m2}[r.IntN(2)], hx([]byte("x")))
				nm++
				switch r.IntN(3) {
				case 0:
					add("mset %d %s 40", m4, hx([]byte(ks[3])))
				case 1:
					add("mdel %d %s", m4, hx([]byte(ks[2])))
				case 2:
					add("mset %d %s 41", m4, hx([]byte("y")))
				}
				nm++
				for i := 0; i < nm; i++ {
					add("mall %d", i)
					add("mlen %d", i)
				}
				add("mget %d %s", m4, hx([]byte(ks[3])))
				add("meq %d %d", m4, nm-1)
			}
		}
		if c%20 == 9 {
			// keys nested 34-40 levels deep (every proper prefix is a key too, so the path to the deepest
			// key runs through as many nodes), deepest ones removed in a Map and a Set
			depth := 34 + r.IntN(7)
			from := "mfrom 0"
			snew := "snew"
			for i := 1; i <= depth; i++ {
				k := []byte(strings.Repeat("a", i))
				from += fmt.Sprintf(" %s %d", hx(k), i)
				snew += " " + hx(k)
				if i%3 == 0 {
					sib := append([]byte(strings.Repeat("a", i-1)), 'b')
					from += fmt.Sprintf(" %s %d", hx(sib), 100+i)
					snew += " " + hx(sib)
				}
			}
			add("%s", from)
			nm++
			add("%s", snew)
			ns++
			for _, d := range []int{depth, depth - 1, 33, depth - 2} {
				k := []byte(strings.Repeat("a", d))
				add("mdel %d %s", nm-1, hx(k))
				nm++
				add("mget %d %s", nm-1, hx(k))
				add("mlen %d", nm-1)
				add("mall %d", nm-1)
				add("mlb %d %s", nm-1, hx([]byte(strings.Repeat("a", 30))))
				add("sdel %d %s", ns-1, hx(k))
				ns++
				add("shas %d %s", ns-1, hx(k))
				add("sall %d", ns-1)
			}
			add("mtxn %d", nm-1)
			add("tdel %s", hx([]byte(strings.Repeat("a", depth-3))))
			add("tdel %s", hx([]byte(strings.Repeat("a", depth-4))))
			add("tall")
			add("tcommit")
			nm++
			add("mall %d", nm-1)
		}
		if c%10 == 7 {
			// threshold walker: a key that is a prefix of `top` others, which are removed one by one
			// across the node-size boundaries (49/48, 17/16, 5/4), in a Map and in a Set
			stem := [][]byte{{}, {'k'}, {'k', 0xff}}[r.IntN(3)]
			if ascii {
				stem = [][]byte{{}, {'k'}}[r.IntN(2)] // valid UTF-8 only: these cases also round-trip through JSON / YAML
			}
			top := []int{52, 19, 7}[r.IntN(3)]
			var kids [][]byte
			from := fmt.Sprintf("mfrom 0 %s 1", hx(stem))
			snew := "snew " + hx(stem)
			for i := 0; i < top; i++ {
				k := append(append([]byte{}, stem...), byte(2*i+2)) // < 0x80
				kids = append(kids, k)
				from += fmt.Sprintf(" %s %d", hx(k), i+2)
				snew += " " + hx(k)
			}
			add("%s", from)
			nm++
			add("%s", snew)
			ns++
			r.Shuffle(len(kids), func(i, j int) { kids[i], kids[j] = kids[j], kids[i] })
			for i := 0; i < 7 && i < len(kids); i++ {
				add("mdel %d %s", nm-1, hx(kids[i]))
				nm++
				add("mget %d %s", nm-1, hx(stem))
				add("mprefix %d %s", nm-1, hx(stem))
				add("mlb %d %s", nm-1, hx(stem))
				add("mall %d", nm-1)
				add("mlen %d", nm-1)
				add("sdel %d %s", ns-1, hx(kids[i]))
				ns++
				add("shas %d %s", ns-1, hx(stem))
				add("sall %d", ns-1)
			}
			add("meq %d %d", nm-1, nm-2)
			add("seq %d %d", ns-1, ns-2)
		}
		for i := 0; i < steps; i++ {
			m := r.IntN(nm)
			if r.IntN(3) != 0 {
				m = nm - 1
			}
			switch x := r.IntN(100); {
			case x < 22:
				add("mset %d %s %d", m, hx(key()), r.IntN(1000))
				nm++
			case x < 32:
				dk := key()
				add("mdel %d %s", m, hx(dk))
				nm++
				if r.IntN(2) == 0 {
					// look the deleted key up in the result
					add("mget %d %s", nm-1, hx(dk))
					add("mprefix %d %s", nm-1, hx(dk))
				}
			case x < 40:
				cnt := r.IntN(5)
				seen := map[string]bool{}
				s := fmt.Sprintf("mfrom %d", m)
				for j := 0; j < cnt; j++ {
					k := key()
					if seen[string(k)] {
						continue
					}
					seen[string(k)] = true
					s += fmt.Sprintf(" %s %d", hx(k), r.IntN(1000))
				}
				add("%s", s)
				nm++
			case x < 46:
				add("mget %d %s", m, hx(key()))
			case x < 50:
				add("mall %d", m)
			case x < 53:
				add("mprefix %d %s", m, hx(key()))
			case x < 56:
				add("mlb %d %s", m, hx(key()))
			case x < 58:
				add("mlen %d", m)
			case x < 61:
				add("meq %d %d", m, r.IntN(nm))
			case x < 64:
				if ascii {
					if r.IntN(2) == 0 {
						add("mjson %d", m)
					} else {
						add("myaml %d", m)
					}
					nm++
				}
			case x < 68:
				add("mtxn %d", m)
				inTxn = true
			case x < 80:
				if inTxn {
					switch r.IntN(8) {
					case 0, 1, 2:
						add("tset %s %d", hx(key()), r.IntN(1000))
					case 3:
						dk := key()
						add("tdel %s", hx(dk))
						add("tget %s", hx(dk))
					case 4:
						add("tget %s", hx(key()))
					case 5:
						add("tall")
					case 6:
						add("tlen")
					case 7:
						add("tcommit")
						nm++
					}
				}
			case x < 84:
				s := "snew"
				for j := r.IntN(4); j > 0; j-- {
					s += " " + hx(key())
				}
				add("%s", s)
				ns++
			default:
				if ns == 0 {
					continue
				}
				si := r.IntN(ns)
				switch r.IntN(9) {
				case 0, 1:
					add("sset %d %s", si, hx(key()))
					ns++
				case 2:
					add("sdel %d %s", si, hx(key()))
					ns++
				case 3:
					add("shas %d %s", si, hx(key()))
				case 4:
					add("sall %d", si)
				case 5:
					add("sunion %d %d", si, r.IntN(ns))
					ns++
				case 6:
					add("sdiff %d %d", si, r.IntN(ns))
					ns++
				case 7:
					add("seq %d %d", si, r.IntN(ns))
				case 8:
					if ascii {
						if r.IntN(2) == 0 {
							add("sjson %d", si)
						} else {
							add("syaml %d", si)
						}
						ns++
					}
				}
			}
		}
		// every earlier value is unchanged
		for i := 0; i < nm; i++ {
			add("mall %d", i)
			add("mlen %d", i)
		}
		for i := 0; i < ns; i++ {
			add("sall %d", i)
		}
		emit(fmt.Sprintf("pmap ascii=%v", ascii), true, ops)
	}
}

type pmapExec struct {
	maps []part.Map[string, int]
	mref []map[string]int
	sets []part.Set[string]
	sref []map[string]bool
	txn  *part.MapTxn[string, int]
	tref map[string]int
}

func (e *pmapExec) Close() {}

func (e *pmapExec) pushMap(o *Out, m part.Map[string, int], ref map[string]int, what string) string {
	e.maps = append(e.maps, m)
	e.mref = append(e.mref, ref)
	e.checkMap(o, len(e.maps)-1, what)
	return fmt.Sprintf("m%d %s %d", len(e.maps)-1, part.VerifMapRep(m), m.Len())
}

func mapEntries(m part.Map[string, int]) []kv {
	var out []kv
	for k, v := range m.All() {
		out = append(out, kv{k, v})
	}
	return out
}

func (e *pmapExec) checkMap(o *Out, i int, what string) {
	got := mapEntries(e.maps[i])
	want := sortedKV(e.mref[i], nil)
	if !eqKVs(got, want) || e.maps[i].Len() != len(want) {
		kind := "wrong-result"
		if !strings.HasPrefix(what, "new:") {
			kind = "earlier-value-changed"
		}
		o.Fail("C17", kind, map[string]string{"op": strings.Fields(strings.TrimPrefix(what, "new:"))[0]},
			fmt.Sprintf("%s: m%d contains %s (Len %d), want %s", what, i, showKVs(got), e.maps[i].Len(), showKVs(want)))
	}
}

func (e *pmapExec) pushSet(o *Out, s part.Set[string], ref map[string]bool, what string) string {
	e.sets = append(e.sets, s)
	e.sref = append(e.sref, ref)
	e.checkSet(o, len(e.sets)-1, "new:"+what)
	return fmt.Sprintf("s%d %s %d", len(e.sets)-1, part.VerifSetRep(s), s.Len())
}

func setKeys(s part.Set[string]) []string {
	var out []string
	for v := range s.All() {
		out = append(out, v)
	}
	return out
}

func (e *pmapExec) checkSet(o *Out, i int, what string) {
	got := setKeys(e.sets[i])
	var want []string
	for k := range e.sref[i] {
		want = append(want, k)
	}
	sort.Strings(want)
	if strings.Join(got, "\x00|") != strings.Join(want, "\x00|") || e.sets[i].Len() != len(want) {
		kind := "wrong-result"
		if !strings.HasPrefix(what, "new:") {
			kind = "earlier-value-changed"
		}
		o.Fail("C17", kind, map[string]string{"op": strings.Fields(strings.TrimPrefix(what, "new:"))[0]}, fmt.Sprintf("%s: s%d contains %q (Len %d) want %q", what, i, got, e.sets[i].Len(), want))
	}
}

func showStrs(ks []string) string {
	if len(ks) == 0 {
		return "."
	}
	p := make([]string, len(ks))
	for i, k := range ks {
		p[i] = hx([]byte(k))
	}
	return strings.Join(p, " ")
}

func (e *pmapExec) Do(o *Out, f []string) string {
	obs := e.do(o, f)
	// persistence: every operation leaves every earlier value unchanged
	// (checked cheaply on a rotating subset)
	if n := len(e.maps); n > 0 {
		e.checkMap(o, (len(f[0])*7+n*13)%n, "after "+f[0])
		if n > 1 {
			e.checkMap(o, n-2, "after "+f[0])
		}
	}
	if n := len(e.sets); n > 1 {
		e.checkSet(o, n-2, "after "+f[0])
	}
	return obs
}

func atoi(s string) int { v, _ := strconv.Atoi(s); return v }

func (e *pmapExec) do(o *Out, f []string) string {
	switch f[0] {
	case "mnew":
		return e.pushMap(o, part.Map[string, int]{}, map[string]int{}, "new:mnew")
	case "mset":
		i, k, v := atoi(f[1]), string(unhx(f[2])), atoi(f[3])
		ref := maps.Clone(e.mref[i])
		ref[k] = v
		return e.pushMap(o, e.maps[i].Set(k, v), ref, "new:mset "+f[2])
	case "mdel":
		i, k := atoi(f[1]), string(unhx(f[2]))
		ref := maps.Clone(e.mref[i])
		delete(ref, k)
		return e.pushMap(o, e.maps[i].Delete(k), ref, "new:mdel "+f[2])
	case "mfrom":
		i := atoi(f[1])
		ref := maps.Clone(e.mref[i])
		hm := map[string]int{}
		for j := 2; j+1 < len(f); j += 2 {
			hm[string(unhx(f[j]))] = atoi(f[j+1])
			ref[string(unhx(f[j]))] = atoi(f[j+1])
		}
		return e.pushMap(o, part.FromMap(e.maps[i], hm), ref, "new:mfrom (FromMap: later write must win)")
	case "mget":
		i, k := atoi(f[1]), string(unhx(f[2]))
		v, ok := e.maps[i].Get(k)
		want, had := e.mref[i][k]
		if ok != had || (had && v != want) {
			o.Fail("C17", "wrong-result", map[string]string{"op": "mget"}, fmt.Sprintf("m%d.Get(%s)=%s want %s", i, f[2], optInt(v, ok), optInt(want, had)))
		}
		return optInt(v, ok)
	case "mall":
		i := atoi(f[1])
		e.checkMap(o, i, "mall")
		return showKVs(mapEntries(e.maps[i]))
	case "mprefix", "mlb":
		i, k := atoi(f[1]), string(unhx(f[2]))
		var got []kv
		var want []kv
		if f[0] == "mprefix" {
			for a, b := range e.maps[i].Prefix(k) {
				got = append(got, kv{a, b})
			}
			want = sortedKV(e.mref[i], func(s string) bool { return strings.HasPrefix(s, k) })
		} else {
			for a, b := range e.maps[i].LowerBound(k) {
				got = append(got, kv{a, b})
			}
			want = sortedKV(e.mref[i], func(s string) bool { return s >= k })
		}
		if !eqKVs(got, want) {
			o.Fail("C17", "wrong-result", map[string]string{"op": f[0]}, fmt.Sprintf("m%d.%s(%s): got %s want %s", i, f[0], f[2], showKVs(got), showKVs(want)))
		}
		// the sequence a (persistent) map hands out is a value: ranging over it again, also after an
		// early break, yields the same elements
		for _, seq := range []iter.Seq2[string, int]{e.maps[i].All(), e.maps[i].Prefix(k), e.maps[i].LowerBound(k)} {
			var first, again []kv
			for a, b := range seq {
				first = append(first, kv{a, b})
			}
			for range seq {
				break
			}
			for a, b := range seq {
				again = append(again, kv{a, b})
			}
			if !eqKVs(first, again) {
				o.Fail("C17", "sequence-not-reusable", map[string]string{"op": f[0]}, fmt.Sprintf("m%d: a sequence yields %s when first ranged over and %s when ranged over again", i, showKVs(first), showKVs(again)))
			}
		}
		return showKVs(got)
	case "mlen":
		return strconv.Itoa(e.maps[i2(f)].Len())
	case "meq":
		i, j := atoi(f[1]), atoi(f[2])
		ek, ev := e.maps[i].EqualKeys(e.maps[j]), e.maps[i].SlowEqual(e.maps[j])
		wk := eqKVs(keysOnly(sortedKV(e.mref[i], nil)), keysOnly(sortedKV(e.mref[j], nil)))
		wv := eqKVs(sortedKV(e.mref[i], nil), sortedKV(e.mref[j], nil))
		if ek != wk || ev != wv {
			o.Fail("C17", "wrong-result", map[string]string{"op": "equal"}, fmt.Sprintf("m%d vs m%d: EqualKeys=%v SlowEqual=%v want %v %v", i, j, ek, ev, wk, wv))
		}
		return fmt.Sprintf("%v %v", ek, ev)
	case "mjson", "myaml":
		i := atoi(f[1])
		var m2 part.Map[string, int]
		var err error
		var bs []byte
		if f[0] == "mjson" {
			bs, err = json.Marshal(e.maps[i])
			if err == nil {
				err = json.Unmarshal(bs, &m2)
			}
		} else {
			bs, err = yaml.Marshal(e.maps[i])
			if err == nil {
				err = yaml.Unmarshal(bs, &m2)
			}
		}
		if err != nil || !m2.SlowEqual(e.maps[i]) || !e.maps[i].SlowEqual(m2) {
			o.Fail("C17", "roundtrip", map[string]string{"format": f[0]}, fmt.Sprintf("%s round trip of m%d: err=%v text=%q", f[0], i, err, string(bs)))
		}
		// the same keys with reference-typed values (slices, structs with optional fields, pointers):
		// every decoded value is its own
		{
			type optV struct {
				A int   `json:"a,omitempty" yaml:"a,omitempty"`
				B []int `json:"b,omitempty" yaml:"b,omitempty"`
				P *int  `json:"p,omitempty" yaml:"p,omitempty"`
			}
			var rm part.Map[string, optV]
			want := map[string]optV{}
			for k, v := range e.mref[i] {
				ov := optV{}
				switch v % 4 {
				case 0:
					ov.A = v + 1
				case 1:
					for j := 0; j <= v%3; j++ {
						ov.B = append(ov.B, v+j)
					}
				case 2:
					pv := v
					ov.P = &pv
				case 3:
					ov.A, ov.B = v, []int{v}
				}
				rm = rm.Set(k, ov)
				want[k] = ov
			}
			var rm2 part.Map[string, optV]
			var rerr error
			var rbs []byte
			if f[0] == "mjson" {
				rbs, rerr = json.Marshal(rm)
				if rerr == nil {
					rerr = json.Unmarshal(rbs, &rm2)
				}
			} else {
				rbs, rerr = yaml.Marshal(rm)
				if rerr == nil {
					rerr = yaml.Unmarshal(rbs, &rm2)
				}
			}
			got := map[string]optV{}
			for k, v := range rm2.All() {
				got[k] = v
			}
			if rerr != nil || !reflect.DeepEqual(got, want) || rm2.Len() != len(want) {
				o.Fail("C17", "roundtrip", map[string]string{"format": f[0], "values": "reference-typed"}, fmt.Sprintf("%s round trip of the keys of m%d with struct / slice / pointer values: err=%v decoded %d entries, text=%q", f[0], i, rerr, rm2.Len(), string(rbs)))
			}
		}
		return e.pushMap(o, m2, maps.Clone(e.mref[i]), "new:"+f[0])
	case "mtxn":
		i := atoi(f[1])
		t := e.maps[i].Txn()
		e.txn = &t
		e.tref = maps.Clone(e.mref[i])
		return "ok"
	case "tset":
		k, v := string(unhx(f[1])), atoi(f[2])
		e.txn.Set(k, v)
		e.tref[k] = v
		return "ok"
	case "tdel":
		k := string(unhx(f[1]))
		_, had := e.tref[k]
		got := e.txn.Delete(k)
		delete(e.tref, k)
		if got != had {
			o.Fail("C17", "wrong-result", map[string]string{"op": "tdel"}, fmt.Sprintf("MapTxn.Delete(%s)=%v want %v", f[1], got, had))
		}
		return strconv.FormatBool(got)
	case "tget":
		k := string(unhx(f[1]))
		v, ok := e.txn.Get(k)
		want, had := e.tref[k]
		if ok != had || (had && v != want) {
			o.Fail("C17", "wrong-result", map[string]string{"op": "tget"}, fmt.Sprintf("MapTxn.Get(%s)=%s want %s", f[1], optInt(v, ok), optInt(want, had)))
		}
		return optInt(v, ok)
	case "tall", "tprefix", "tlb":
		var got, want []kv
		switch f[0] {
		case "tall":
			for a, b := range e.txn.All() {
				got = append(got, kv{a, b})
			}
			want = sortedKV(e.tref, nil)
		case "tprefix":
			k := string(unhx(f[1]))
			for a, b := range e.txn.Prefix(k) {
				got = append(got, kv{a, b})
			}
			want = sortedKV(e.tref, func(s string) bool { return strings.HasPrefix(s, k) })
		case "tlb":
			k := string(unhx(f[1]))
			for a, b := range e.txn.LowerBound(k) {
				got = append(got, kv{a, b})
			}
			want = sortedKV(e.tref, func(s string) bool { return s >= k })
		}
		if !eqKVs(got, want) {
			o.Fail("C17", "wrong-result", map[string]string{"op": f[0]}, fmt.Sprintf("MapTxn.%s: got %s want %s", f[0], showKVs(got), showKVs(want)))
		}
		return showKVs(got)
	case "tlen":
		if e.txn.Len() != len(e.tref) {
			o.Fail("C17", "wrong-result", map[string]string{"op": "tlen"}, fmt.Sprintf("MapTxn.Len()=%d want %d", e.txn.Len(), len(e.tref)))
		}
		return strconv.Itoa(e.txn.Len())
	case "tcommit":
		return e.pushMap(o, e.txn.Commit(), maps.Clone(e.tref), "new:tcommit")
	case "snew":
		ref := map[string]bool{}
		var vals []string
		for _, k := range f[1:] {
			vals = append(vals, string(unhx(k)))
			ref[string(unhx(k))] = true
		}
		return e.pushSet(o, part.NewSet(vals...), ref, "snew")
	case "sset", "sdel":
		i, k := atoi(f[1]), string(unhx(f[2]))
		ref := maps.Clone(e.sref[i])
		if f[0] == "sset" {
			ref[k] = true
			return e.pushSet(o, e.sets[i].Set(k), ref, "sset")
		}
		delete(ref, k)
		return e.pushSet(o, e.sets[i].Delete(k), ref, "sdel")
	case "shas":
		i, k := atoi(f[1]), string(unhx(f[2]))
		got := e.sets[i].Has(k)
		if got != e.sref[i][k] {
			o.Fail("C17", "wrong-result", map[string]string{"op": "shas"}, fmt.Sprintf("s%d.Has(%s)=%v", i, f[2], got))
		}
		return strconv.FormatBool(got)
	case "sall":
		i := atoi(f[1])
		e.checkSet(o, i, "sall")
		return showStrs(setKeys(e.sets[i]))
	case "slen":
		return strconv.Itoa(e.sets[atoi(f[1])].Len())
	case "sunion", "sdiff":
		i, j := atoi(f[1]), atoi(f[2])
		ref := maps.Clone(e.sref[i])
		if f[0] == "sunion" {
			for k := range e.sref[j] {
				ref[k] = true
			}
			return e.pushSet(o, e.sets[i].Union(e.sets[j]), ref, "sunion")
		}
		for k := range e.sref[j] {
			delete(ref, k)
		}
		return e.pushSet(o, e.sets[i].Difference(e.sets[j]), ref, "sdiff")
	case "seq":
		i, j := atoi(f[1]), atoi(f[2])
		got := e.sets[i].Equal(e.sets[j])
		want := maps.Equal(e.sref[i], e.sref[j])
		if got != want {
			o.Fail("C17", "wrong-result", map[string]string{"op": "set-equal"}, fmt.Sprintf("s%d.Equal(s%d)=%v want %v (%s vs %s)", i, j, got, want, part.VerifSetRep(e.sets[i]), part.VerifSetRep(e.sets[j])))
		}
		return strconv.FormatBool(got)
	case "sjson", "syaml":
		i := atoi(f[1])
		var s2 part.Set[string]
		var err error
		var bs []byte
		if f[0] == "sjson" {
			bs, err = json.Marshal(e.sets[i])
			if err == nil {
				err = json.Unmarshal(bs, &s2)
			}
		} else {
			bs, err = yaml.Marshal(e.sets[i])
			if err == nil {
				err = yaml.Unmarshal(bs, &s2)
			}
		}
		if err != nil || !s2.Equal(e.sets[i]) || !e.sets[i].Equal(s2) {
			o.Fail("C17", "roundtrip", map[string]string{"format": f[0]}, fmt.Sprintf("%s round trip of s%d: err=%v text=%q", f[0], i, err, string(bs)))
		}
		return e.pushSet(o, s2, maps.Clone(e.sref[i]), f[0])
	}
	return "bad-op"
}

func i2(f []string) int { return atoi(f[1]) }

func keysOnly(es []kv) []kv {
	out := make([]kv, len(es))
	for i, e := range es {
		out[i] = kv{e.k, 0}
	}
	return out
}

var _ = rand.IntN
