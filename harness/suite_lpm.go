package main

import (
	"bytes"
	"fmt"
	"sort"
	"strconv"
	"strings"

	"github.com/cilium/statedb/index"
	"github.com/cilium/statedb/lpm"
)

func init() {
	suites["lpm"] = SuiteDef{Gen: genLpm, NewExec: func(h string) Exec { return newLpmExec(h) }}
}

func genLpm(cfg Config, emit func(string, bool, []string)) {
	n, maxTx, maxOps := 300, 5, 25
	if cfg.Thorough() {
		n, maxTx, maxOps = 3000, 8, 80
	}
	for c := 0; c < n; c++ {
		r := newRand(cfg.Seed, uint64(1300+c))
		maxBytes := []int{2, 2, 1, 4, 16}[c%5]
		alpha := []byte{0x00, 0x80, 0xff, 0xa5, 0xa4, 0x7f, 0x01, 0xc0}
		var used []string
		key := func() (string, int) {
			if len(used) > 0 && r.IntN(3) == 0 {
				// re-use a stored-ish key, maybe with a different length (prefix / extension)
				parts := strings.Split(used[r.IntN(len(used))], " ")
				d := unhx(parts[0])
				l, _ := strconv.Atoi(parts[1])
				switch r.IntN(4) {
				case 0:
					l = r.IntN(l + 1)
				case 1:
					l = min(l+1+r.IntN(4), len(d)*8)
				}
				return hx(d), l
			}
			d := make([]byte, maxBytes)
			for i := range d {
				if r.IntN(4) == 0 {
					d[i] = byte(r.IntN(256))
				} else {
					d[i] = alpha[r.IntN(len(alpha))]
				}
			}
			l := r.IntN(maxBytes*8 + 1)
			if r.IntN(3) == 0 {
				l = maxBytes * 8
			}
			used = append(used, fmt.Sprintf("%s %d", hx(d), l))
			return hx(d), l
		}
		full := func() (string, int) {
			d, _ := key()
			return d, maxBytes * 8
		}
		var ops []string
		add := func(f string, a ...any) { ops = append(ops, fmt.Sprintf(f, a...)) }
		nv, ni := 1, 0
		kinds := []string{"all", "prefix", "lb"}
		if c%20 == 13 {
			// a LowerBound iterator whose stack holds 33-45 entries (a larger sibling at every level of a
			// 16-byte search path), read with All() twice, Next() in between and after, from the
			// transaction and from the committed trie
			depth := 33 + r.IntN(13)
			zero := make([]byte, 16)
			add("txn 0")
			for i := 0; i < depth; i++ {
				k := make([]byte, 16)
				k[i/8] = 0x80 >> (i % 8)
				add("ins %s 128 %d", hx(k), 100+i)
				if i%5 == 0 {
					k2 := append([]byte{}, k...)
					k2[15] |= 1
					add("ins %s 128 %d", hx(k2), 200+i)
				}
			}
			add("ins %s 128 7", hx(zero))
			add("keepiter lb %s 128", hx(zero))
			ni++
			add("iterall %d", ni-1)
			add("iterall %d", ni-1)
			add("next %d 3", ni-1)
			add("iterall %d", ni-1)
			add("commit")
			nv++
			add("vkeepiter %d lb %s 128", nv-1, hx(zero))
			ni++
			add("next %d 2", ni-1)
			add("iterall %d", ni-1)
			add("iterall %d", ni-1)
			add("next %d 50", ni-1)
			add("vkeepiter %d lb %s %d", nv-1, hx(zero), 3+r.IntN(20))
			ni++
			add("iterall %d", ni-1)
			add("iterall %d", ni-1)
			emit("lpm deep-lowerbound-stack maxbytes=16", true, ops)
			continue
		}
		if c%10 == 4 {
			// two transaction objects: the first one is re-targeted (Txn.Reuse) at a trie that the
			// second one committed; its writes never show in that trie
			d1, l1 := key()
			d2, l2 := key()
			d3, l3 := key()
			add("txn 0")
			add("ins %s %d 1", d1, l1)
			if r.IntN(2) == 0 {
				add("q all %s %d", d1, l1)
			}
			add("commit")
			nv++
			add("txn %d", nv-1)
			add("ins %s %d 2", d2, l2)
			add("ins %s %d 3", d3, l3)
			add("commit")
			nv++
			add("vdump %d", nv-1)
			add("reuse0 %d", nv-1)
			add("ins %s %d 92", d2, l2)
			add("del %s %d", d3, l3)
			add("ins %s %d 91", d1, l1)
			add("vdump %d", nv-1)
			add("vq %d all x 0", nv-1)
			if r.IntN(2) == 0 {
				add("abandon")
			} else {
				add("commit")
				nv++
			}
			add("vq %d all x 0", nv-1)
		}
		for t := 0; t < 1+r.IntN(maxTx); t++ {
			base := nv - 1
			if r.IntN(4) == 0 {
				base = r.IntN(nv)
			}
			if t > 0 && r.IntN(3) == 0 {
				add("reuse %d", base)
			} else {
				add("txn %d", base)
			}
			for i := r.IntN(maxOps + 1); i > 0; i-- {
				d, l := key()
				switch x := r.IntN(100); {
				case x < 40:
					add("ins %s %d %d", d, l, r.IntN(1000))
				case x < 60:
					add("del %s %d", d, l)
				case x < 68:
					fd, fl := full()
					add("lookup %s %d", fd, fl)
				case x < 72:
					add("lookup %s %d", d, l)
				case x < 78:
					add("exact %s %d", d, l)
				case x < 88:
					add("q %s %s %d", kinds[r.IntN(3)], d, l)
				case x < 90:
					add("len")
				case x < 93:
					add("dump")
				case x < 95:
					add("keepiter %s %s %d", kinds[r.IntN(3)], d, l)
					ni++
					if r.IntN(2) == 0 {
						// an entry written by this very transaction, an iterator starting at it, then
						// the entry is removed / rewritten / gets a longer prefix below it right away:
						// the iterator keeps yielding what it was made from
						add("ins %s %d %d", d, l, 1000+r.IntN(1000))
						add("keepiter prefix %s %d", d, l)
						ni++
						switch r.IntN(3) {
						case 0:
							add("del %s %d", d, l)
						case 1:
							add("ins %s %d %d", d, l, 2000+r.IntN(1000))
						case 2:
							add("ins %s %d %d", d, maxBytes*8, 3000+r.IntN(1000))
						}
						add("iterall %d", ni-1)
					}
				case x < 96:
					// Commit and keep writing through the same Txn
					add("commitkeep")
					nv++
					add("vdump %d", nv-1)
				default:
					v := r.IntN(nv)
					switch r.IntN(4) {
					case 0:
						fd, fl := full()
						add("vlookup %d %s %d", v, fd, fl)
					case 1:
						add("vexact %d %s %d", v, d, l)
					case 2:
						add("vq %d %s %s %d", v, kinds[r.IntN(3)], d, l)
					case 3:
						add("vkeepiter %d %s %s %d", v, kinds[r.IntN(3)], d, l)
						ni++
					}
				}
				if ni > 0 && r.IntN(12) == 0 {
					it := r.IntN(ni)
					if r.IntN(2) == 0 {
						add("iterall %d", it)
						if r.IntN(2) == 0 {
							add("iterall %d", it)
						}
					}
					add("next %d %d", it, 1+r.IntN(3))
				}
			}
			if r.IntN(5) == 0 {
				add("abandon")
			} else {
				add("commit")
				nv++
				add("vdump %d", nv-1)
			}
		}
		for v := 0; v < nv; v++ {
			add("vq %d all x 0", v)
			add("vlen %d", v)
		}
		for i := 0; i < ni; i++ {
			add("iterall %d", i)
			add("next %d 1000", i)
		}
		emit(fmt.Sprintf("lpm maxbytes=%d", maxBytes), true, ops)
	}
}

type lpmEnt struct {
	data []byte // masked
	plen int
	val  int
}

type lpmExec struct {
	maxBytes int
	versions []lpm.Trie[int]
	refs     []map[string]lpmEnt
	txn      *lpm.Txn[int]
	lastTxn  *lpm.Txn[int] // the most recent transaction object, kept after Commit / abandon for Reuse
	firstTxn *lpm.Txn[int] // the first transaction object of the case
	tref     map[string]lpmEnt
	iters    []*lpmIt
	scratch  [96]byte // callers' key buffer: keys are encoded from sub-slices of it, then it is reused
	nparse   int
	made     []lpmMade
}

type lpmIt struct {
	it   *lpm.Iterator[int]
	want []lpmEnt
}

func newLpmExec(h string) *lpmExec {
	e := &lpmExec{maxBytes: 2}
	if i := strings.Index(h, "maxbytes="); i >= 0 {
		e.maxBytes, _ = strconv.Atoi(strings.Fields(h[i+9:])[0])
	}
	e.versions = []lpm.Trie[int]{lpm.New[int]()}
	e.refs = []map[string]lpmEnt{{}}
	return e
}

func (e *lpmExec) Close() {}

func bitsKey(data []byte, plen int) string {
	var b strings.Builder
	for i := 0; i < plen; i++ {
		b.WriteByte('0' + (data[i/8]>>(7-i%8))&1)
	}
	return b.String()
}

func lpmLess(a, b lpmEnt, maxBytes int) bool {
	pa, pb := make([]byte, maxBytes), make([]byte, maxBytes)
	copy(pa, a.data)
	copy(pb, b.data)
	if c := bytes.Compare(pa, pb); c != 0 {
		return c < 0
	}
	return a.plen < b.plen
}

func (e *lpmExec) sorted(ref map[string]lpmEnt, keep func(bits string, x lpmEnt) bool) []lpmEnt {
	var out []lpmEnt
	for k, x := range ref {
		if keep == nil || keep(k, x) {
			out = append(out, x)
		}
	}
	sort.Slice(out, func(i, j int) bool { return lpmLess(out[i], out[j], e.maxBytes) })
	return out
}

func showLpm(es []lpmEnt) string {
	if len(es) == 0 {
		return "."
	}
	p := make([]string, len(es))
	for i, x := range es {
		p[i] = fmt.Sprintf("%s/%d=%d", hx(x.data), x.plen, x.val)
	}
	return strings.Join(p, " ")
}

func collectLpm(it *lpm.Iterator[int]) []lpmEnt {
	var out []lpmEnt
	it.All(func(k []byte, v int) bool {
		d, l := lpm.DecodeLPMKey(k)
		out = append(out, lpmEnt{append([]byte{}, d...), int(l), v})
		return true
	})
	return out
}

func eqLpm(a, b []lpmEnt) bool {
	if len(a) != len(b) {
		return false
	}
	for i := range a {
		if !bytes.Equal(a[i].data, b[i].data) || a[i].plen != b[i].plen || a[i].val != b[i].val {
			return false
		}
	}
	return true
}

// maskLpm: the first ceil(plen/8) bytes of data with the bits beyond plen cleared
func maskLpm(data []byte, plen int) []byte {
	n := (plen + 7) / 8
	if n > len(data) {
		return append([]byte{}, data...)
	}
	md := append([]byte{}, data[:n]...)
	if r := plen % 8; r != 0 && n > 0 {
		md[n-1] &= byte(0xff) << (8 - r)
	}
	return md
}

func (e *lpmExec) parse(d, l string) ([]byte, int, []byte) {
	data := unhx(d)
	plen, _ := strconv.Atoi(l)
	e.nparse++
	if n := (plen + 7) / 8; e.nparse%2 == 0 && n <= len(data) && n+2 <= len(e.scratch) {
		// as a caller with one address buffer does: exactly the prefix's bytes, from a buffer with
		// spare capacity that is overwritten right after the key was made
		buf := e.scratch[:n]
		copy(buf, data)
		key := lpm.EncodeLPMKey(buf, uint16(plen))
		for i := range e.scratch {
			e.scratch[i] = 0xa5
		}
		e.made = append(e.made, lpmMade{key: key, md: maskLpm(data, plen), plen: plen})
		return maskLpm(data, plen), plen, key
	}
	key := lpm.EncodeLPMKey(data, uint16(plen))
	md, _ := lpm.DecodeLPMKey(key)
	return append([]byte{}, md...), plen, key
}

type lpmMade struct {
	key  []byte
	md   []byte
	plen int
}

// checkMade: a key, once made, keeps denoting the prefix it was made for, whatever the caller
// does with the buffer it encoded from
func (e *lpmExec) checkMade(o *Out) {
	for i := range e.made {
		m := &e.made[i]
		if m.key == nil {
			continue
		}
		bad := len(m.key) < 2
		if !bad {
			func() {
				defer func() {
					if recover() != nil {
						bad = true
					}
				}()
				md, pl := lpm.DecodeLPMKey(m.key)
				bad = !bytes.Equal(md, m.md) || int(pl) != m.plen
			}()
		}
		if bad {
			o.Fail("C13", "stored-key-follows-the-callers-buffer", nil, fmt.Sprintf("the key made for prefix %s/%d reads %s after the caller reused the buffer it was encoded from: an inserted prefix is no longer the one that was inserted", hx(m.md), m.plen, hx(m.key)))
			m.key = nil
		}
	}
}

func (e *lpmExec) wantQuery(ref map[string]lpmEnt, kind string, md []byte, plen int) []lpmEnt {
	q := lpmEnt{data: md, plen: plen}
	qb := bitsKey(md, plen)
	switch kind {
	case "prefix":
		return e.sorted(ref, func(b string, x lpmEnt) bool { return strings.HasPrefix(b, qb) })
	case "lb":
		return e.sorted(ref, func(b string, x lpmEnt) bool { return !lpmLess(x, q, e.maxBytes) })
	}
	return e.sorted(ref, nil)
}

func (e *lpmExec) query(kind string, ops interface {
	All() *lpm.Iterator[int]
	Prefix(index.Key) *lpm.Iterator[int]
	LowerBound(index.Key) *lpm.Iterator[int]
}, key []byte) *lpm.Iterator[int] {
	switch kind {
	case "prefix":
		return ops.Prefix(key)
	case "lb":
		return ops.LowerBound(key)
	}
	return ops.All()
}

func (e *lpmExec) wantLookup(ref map[string]lpmEnt, md []byte, plen int) (int, bool, bool) {
	qb := bitsKey(md, plen)
	// constrained by the property only for full-length keys and for stored keys
	_, stored := ref[qb]
	constrained := plen == e.maxBytes*8 || stored
	best, found, bl := 0, false, -1
	for b, x := range ref {
		if strings.HasPrefix(qb, b) && len(b) > bl {
			best, found, bl = x.val, true, len(b)
		}
	}
	return best, found, constrained
}

func (e *lpmExec) Do(o *Out, f []string) string {
	defer e.checkMade(o)
	switch f[0] {
	case "ins", "del", "lookup", "exact", "q", "len", "dump", "commit", "commitkeep", "keepiter":
		if e.txn == nil {
			return "bad-op" // ill-formed (shrunk) sequence: no open transaction
		}
	}
	switch f[0] {
	case "txn", "reuse", "reuse0":
		v := atoi(f[1])
		if v >= len(e.versions) {
			return "bad-op"
		}
		if f[0] == "reuse0" && e.firstTxn != nil {
			// the FIRST transaction object of the case, re-targeted after others have committed
			e.txn = e.firstTxn.Reuse(e.versions[v])
		} else if f[0] == "reuse" && e.lastTxn != nil {
			// Txn.Reuse: an earlier transaction object (committed or abandoned, not cleared) re-targeted at a trie
			e.txn = e.lastTxn.Reuse(e.versions[v])
		} else {
			e.txn = e.versions[v].Txn()
		}
		e.lastTxn = e.txn
		if e.firstTxn == nil {
			e.firstTxn = e.txn
		}
		e.tref = map[string]lpmEnt{}
		for k, x := range e.refs[v] {
			e.tref[k] = x
		}
		return "ok"
	case "ins":
		md, plen, key := e.parse(f[1], f[2])
		val := atoi(f[3])
		if err := e.txn.Insert(key, val); err != nil {
			return "err"
		}
		e.tref[bitsKey(md, plen)] = lpmEnt{md, plen, val}
		if e.txn.Len() != len(e.tref) {
			o.Fail("C13", "wrong-result", map[string]string{"op": "len-after-insert"}, fmt.Sprintf("Len()=%d want %d", e.txn.Len(), len(e.tref)))
		}
		return "ok"
	case "del":
		md, plen, key := e.parse(f[1], f[2])
		v, found := e.txn.Delete(key)
		want, had := e.tref[bitsKey(md, plen)]
		if found != had || (had && v != want.val) {
			o.Fail("C13", "wrong-result", map[string]string{"op": "delete"}, fmt.Sprintf("Delete(%s/%d)=%s want %s", f[1], plen, optInt(v, found), optInt(want.val, had)))
		}
		delete(e.tref, bitsKey(md, plen))
		if e.txn.Len() != len(e.tref) {
			o.Fail("C13", "wrong-result", map[string]string{"op": "len-after-delete"}, fmt.Sprintf("Len()=%d want %d", e.txn.Len(), len(e.tref)))
		}
		return optInt(v, found)
	case "lookup", "vlookup", "exact", "vexact":
		var (
			ref  map[string]lpmEnt
			v    int
			ok   bool
			args = f[1:]
			who  = "txn"
		)
		lookup, exact := e.txn.Lookup, e.txn.LookupExact
		ref = e.tref
		if f[0][0] == 'v' {
			vi := atoi(f[1])
			lookup, exact = e.versions[vi].Lookup, e.versions[vi].LookupExact
			ref = e.refs[vi]
			args = f[2:]
			who = "v" + f[1]
		}
		md, plen, key := e.parse(args[0], args[1])
		if strings.HasSuffix(f[0], "exact") {
			v, ok = exact(key)
			want, had := ref[bitsKey(md, plen)]
			if ok != had || (had && v != want.val) {
				o.Fail("C13", map[bool]string{true: "persistence", false: "wrong-result"}[who != "txn"], map[string]string{"op": "lookup-exact"},
					fmt.Sprintf("%s.LookupExact(%s/%d)=%s want %s", who, args[0], plen, optInt(v, ok), optInt(want.val, had)))
			}
		} else {
			v, ok = lookup(key)
			want, had, constrained := e.wantLookup(ref, md, plen)
			if constrained && (ok != had || (had && v != want)) {
				o.Fail("C13", map[bool]string{true: "persistence", false: "wrong-result"}[who != "txn"], map[string]string{"op": "lookup", "full_length": strconv.FormatBool(plen == e.maxBytes*8)},
					fmt.Sprintf("%s.Lookup(%s/%d)=%s want %s", who, args[0], plen, optInt(v, ok), optInt(want, had)))
			}
			if !constrained {
				o.Notes["lookup-unconstrained (N2)"]++
			}
		}
		return optInt(v, ok)
	case "q", "vq":
		var got, want []lpmEnt
		who := "txn"
		var kind string
		if f[0] == "q" {
			kind = f[1]
			md, plen, key := e.parse(f[2], f[3])
			got = collectLpm(e.query(kind, e.txn, key))
			want = e.wantQuery(e.tref, kind, md, plen)
		} else {
			vi := atoi(f[1])
			kind = f[2]
			md, plen, key := e.parse(f[3], f[4])
			got = collectLpm(e.query(kind, &e.versions[vi], key))
			want = e.wantQuery(e.refs[vi], kind, md, plen)
			who = "v" + f[1]
		}
		if !eqLpm(got, want) {
			o.Fail("C13", map[bool]string{true: "persistence", false: "wrong-result"}[who != "txn" && kind == "all"], map[string]string{"op": kind},
				fmt.Sprintf("%s.%s(%s): got %s want %s", who, kind, strings.Join(f[len(f)-2:], "/"), showLpm(got), showLpm(want)))
		}
		return showLpm(got)
	case "len":
		return strconv.Itoa(e.txn.Len())
	case "vlen":
		vi := atoi(f[1])
		if e.versions[vi].Len() != len(e.refs[vi]) {
			o.Fail("C13", "persistence", map[string]string{"op": "len"}, fmt.Sprintf("v%d.Len()=%d want %d", vi, e.versions[vi].Len(), len(e.refs[vi])))
		}
		return strconv.Itoa(e.versions[vi].Len())
	case "dump":
		return lpm.VerifDumpTxn(e.txn)
	case "vdump":
		return lpm.VerifDumpTrie(e.versions[atoi(f[1])])
	case "commit", "commitkeep":
		t := e.txn.Commit()
		e.versions = append(e.versions, t)
		cp := map[string]lpmEnt{}
		for k, x := range e.tref {
			cp[k] = x
		}
		e.refs = append(e.refs, cp)
		if f[0] == "commit" {
			e.txn = nil
		}
		return fmt.Sprintf("v%d %d", len(e.versions)-1, t.Len())
	case "abandon":
		e.txn = nil
		return "ok"
	case "keepiter", "vkeepiter":
		var it *lpm.Iterator[int]
		var want []lpmEnt
		if f[0] == "keepiter" {
			md, plen, key := e.parse(f[2], f[3])
			it = e.query(f[1], e.txn, key)
			want = e.wantQuery(e.tref, f[1], md, plen)
		} else {
			vi := atoi(f[1])
			md, plen, key := e.parse(f[3], f[4])
			it = e.query(f[2], &e.versions[vi], key)
			want = e.wantQuery(e.refs[vi], f[2], md, plen)
		}
		e.iters = append(e.iters, &lpmIt{it, want})
		return fmt.Sprintf("i%d", len(e.iters)-1)
	case "iterall":
		// Iterator.All does not consume: it yields everything from the current position, any number of times
		pi := e.iters[atoi(f[1])]
		var got []lpmEnt
		pi.it.All(func(k []byte, v int) bool {
			d, l := lpm.DecodeLPMKey(k)
			got = append(got, lpmEnt{append([]byte{}, d...), int(l), v})
			return true
		})
		if !eqLpm(got, pi.want) {
			o.Fail("C13", "iterator", map[string]string{"op": "iterator-all"}, fmt.Sprintf("retained iterator i%s All(): got %s want %s", f[1], showLpm(got), showLpm(pi.want)))
		}
		return showLpm(got)
	case "next":
		pi := e.iters[atoi(f[1])]
		n := atoi(f[2])
		var got []lpmEnt
		for j := 0; j < n; j++ {
			k, v, ok := pi.it.Next()
			if !ok {
				break
			}
			d, l := lpm.DecodeLPMKey(k)
			got = append(got, lpmEnt{append([]byte{}, d...), int(l), v})
		}
		want := pi.want
		if len(want) > n {
			want = want[:n]
		}
		if !eqLpm(got, want) {
			o.Fail("C13", "iterator", map[string]string{"op": "iterator-next"}, fmt.Sprintf("retained iterator i%s: got %s want %s", f[1], showLpm(got), showLpm(want)))
		}
		pi.want = pi.want[len(want):]
		return showLpm(got)
	}
	return "bad-op"
}
