package main

import (
	"encoding/json"
	"fmt"
	"sort"
	"strings"

	"github.com/cilium/statedb/reconciler"
)

func init() {
	suites["sset"] = SuiteDef{Gen: genSSet, NewExec: func(h string) Exec { return &ssetExec{ids: map[uint64]string{}, first: map[int]string{}} }}
}

// genSSet (C15, several reconcilers per object): a family of reconciler.StatusSet VALUES built from
// one another by Set / Pending / JSON round trips, any earlier value as the source of the next
// operation; Get (also for names that never reported), All, String on any value.  After every
// operation every earlier value is rendered again (value semantics: a status write by one reconciler
// must not show through in values held by others).
func genSSet(cfg Config, emit func(string, bool, []string)) {
	n := 150
	if cfg.Thorough() {
		n = 1500
	}
	kinds := []string{"P", "R", "D", "E"}
	for c := 0; c < n; c++ {
		r := newRand(cfg.Seed, uint64(9000+c))
		var ops []string
		add := func(f string, a ...any) { ops = append(ops, fmt.Sprintf(f, a...)) }
		nv := 1
		add("new")
		nnames := 2 + r.IntN(7)
		steps := 10 + r.IntN(30)
		if c%10 == 3 {
			// one lineage grown by appends in ascending name order (spare capacity in the backing
			// array), then siblings written from the same earlier value
			for i := 0; i < nnames; i++ {
				add("set %d %d %s", nv-1, i, kinds[r.IntN(4)])
				nv++
			}
			base := nv - 2
			for i := 0; i < 4; i++ {
				add("set %d %d %s", base, nnames-1+r.IntN(3), kinds[r.IntN(4)])
				nv++
				add("set %d %d %s", base, r.IntN(nnames), kinds[r.IntN(4)])
				nv++
				add("pending %d", base)
				nv++
			}
		}
		for i := 0; i < steps; i++ {
			src := r.IntN(nv)
			if r.IntN(3) > 0 {
				src = nv - 1
			}
			switch x := r.IntN(12); {
			case x < 5:
				add("set %d %d %s", src, r.IntN(nnames), kinds[r.IntN(4)])
				nv++
			case x < 6:
				add("pending %d", src)
				nv++
			case x < 7:
				add("json %d", src)
				nv++
			case x < 9:
				add("get %d %d", src, r.IntN(nnames+1))
			case x < 10:
				add("all %d", src)
			case x < 11:
				add("str %d", src)
			default:
				add("new")
				nv++
			}
		}
		add("check")
		emit("sset", true, ops)
	}
}

type ssetExec struct {
	vs    []reconciler.StatusSet
	ids   map[uint64]string
	first map[int]string
}

func (e *ssetExec) Close() {}

func ssetName(i int) string { return fmt.Sprintf("n%02d", i) }

func (e *ssetExec) cid(id uint64) string {
	if id == 0 {
		return "i0"
	}
	if s, ok := e.ids[id]; ok {
		return s
	}
	s := fmt.Sprintf("i%d", len(e.ids)+1)
	e.ids[id] = s
	return s
}

var ssetKind = map[reconciler.StatusKind]string{reconciler.StatusKindPending: "P", reconciler.StatusKindRefreshing: "R", reconciler.StatusKindDone: "D", reconciler.StatusKindError: "E"}

func ssetStr(s reconciler.StatusSet) string {
	str := s.String()
	if i := strings.LastIndex(str, " ("); i >= 0 && strings.HasSuffix(str, " ago)") {
		str = str[:i]
	}
	return strings.ReplaceAll(str, " ", "_")
}

// render: the set's id as a never-reported reconciler sees it, every status by name, and the
// stored order as String() shows it
func (e *ssetExec) render(s reconciler.StatusSet) string {
	all := s.All()
	names := make([]string, 0, len(all))
	for n := range all {
		names = append(names, n)
	}
	sort.Strings(names)
	parts := []string{"id=" + e.cid(s.Get("~nobody~").ID)}
	for _, n := range names {
		st := all[n]
		parts = append(parts, fmt.Sprintf("%s=%s:%s", n, ssetKind[st.Kind], e.cid(st.ID)))
	}
	return strings.Join(parts, ",") + " " + ssetStr(s)
}

func (e *ssetExec) mk(kind string) reconciler.Status {
	switch kind {
	case "P":
		return reconciler.StatusPending()
	case "R":
		return reconciler.StatusRefreshing()
	case "D":
		return reconciler.StatusDone()
	default:
		return reconciler.StatusError(fmt.Errorf("err"))
	}
}

func (e *ssetExec) push(o *Out, s reconciler.StatusSet) string {
	e.vs = append(e.vs, s)
	r := e.render(s)
	e.first[len(e.vs)-1] = r
	e.recheck(o)
	return fmt.Sprintf("v%d %s", len(e.vs)-1, r)
}

// recheck: value semantics — every earlier value still renders as it did when it was made
func (e *ssetExec) recheck(o *Out) {
	for i, s := range e.vs {
		if got := e.render(s); got != e.first[i] {
			o.Fail("C15", "statusset-earlier-value-changed", nil, fmt.Sprintf("StatusSet value v%d was %q when it was made and now reads %q: a later Set / Pending on another value wrote through it", i, e.first[i], got))
			e.first[i] = got
		}
	}
}

func (e *ssetExec) Do(o *Out, f []string) string {
	if len(f) == 0 {
		return "bad-op"
	}
	src := func(i int) (reconciler.StatusSet, bool) {
		var n int
		if len(f) <= i {
			return reconciler.StatusSet{}, false
		}
		if _, err := fmt.Sscanf(f[i], "%d", &n); err != nil || n < 0 || n >= len(e.vs) {
			return reconciler.StatusSet{}, false
		}
		return e.vs[n], true
	}
	num := func(i int) (int, bool) {
		var n int
		if len(f) <= i {
			return 0, false
		}
		if _, err := fmt.Sscanf(f[i], "%d", &n); err != nil || n < 0 {
			return 0, false
		}
		return n, true
	}
	switch f[0] {
	case "new":
		return e.push(o, reconciler.NewStatusSet())
	case "set":
		s, ok := src(1)
		n, ok2 := num(2)
		if !ok || !ok2 || len(f) != 4 || !strings.Contains("PRDE", f[3]) || len(f[3]) != 1 {
			return "bad-op"
		}
		st := e.mk(f[3])
		ns := s.Set(ssetName(n), st)
		// C15: the writer reads its own status back; every other reconciler's status is as before
		if g := ns.Get(ssetName(n)); g.Kind != st.Kind || g.ID != st.ID {
			o.Fail("C15", "statusset-set-not-read-back", nil, fmt.Sprintf("Set(%s, %s) then Get returned %s", ssetName(n), f[3], ssetKind[g.Kind]))
		}
		for m := 0; m < 12; m++ {
			if m == n {
				continue
			}
			a, b := s.Get(ssetName(m)), ns.Get(ssetName(m))
			if a.Kind != b.Kind || a.ID != b.ID {
				o.Fail("C15", "statusset-set-changed-another-reconcilers-status", nil, fmt.Sprintf("Set(%s) changed what reconciler %s reads: %s/%d -> %s/%d", ssetName(n), ssetName(m), ssetKind[a.Kind], a.ID, ssetKind[b.Kind], b.ID))
			}
		}
		return e.push(o, ns)
	case "pending":
		s, ok := src(1)
		if !ok || len(f) != 2 {
			return "bad-op"
		}
		ns := s.Pending()
		id := ns.Get("~nobody~").ID
		for m := 0; m < 12; m++ {
			if g := ns.Get(ssetName(m)); g.Kind != reconciler.StatusKindPending || g.ID != id {
				o.Fail("C15", "statusset-pending-not-uniform", nil, fmt.Sprintf("after Pending() reconciler %s reads %s/%d, the set's id is %d", ssetName(m), ssetKind[g.Kind], g.ID, id))
			}
		}
		return e.push(o, ns)
	case "json":
		s, ok := src(1)
		if !ok || len(f) != 2 {
			return "bad-op"
		}
		b, err := json.Marshal(s)
		if err != nil {
			return "marshal-error"
		}
		var ns reconciler.StatusSet
		if err := json.Unmarshal(b, &ns); err != nil {
			return "unmarshal-error"
		}
		return e.push(o, ns)
	case "get":
		s, ok := src(1)
		n, ok2 := num(2)
		if !ok || !ok2 || len(f) != 3 {
			return "bad-op"
		}
		g := s.Get(ssetName(n))
		return fmt.Sprintf("%s:%s", ssetKind[g.Kind], e.cid(g.ID))
	case "all", "str":
		s, ok := src(1)
		if !ok || len(f) != 2 {
			return "bad-op"
		}
		return e.render(s)
	case "check":
		e.recheck(o)
		parts := make([]string, len(e.vs))
		for i, s := range e.vs {
			parts[i] = e.render(s)
		}
		return strings.Join(parts, " | ")
	}
	return "bad-op"
}
