package main

import (
	"bytes"
	"fmt"
	"net/netip"
	"sort"
	"strconv"
	"strings"

	"github.com/cilium/statedb"
	"github.com/cilium/statedb/index"
	"github.com/cilium/statedb/lpm"
	"github.com/cilium/statedb/part"
)

func init() { suites["enc"] = SuiteDef{Gen: genEnc, NewExec: func(string) Exec { return &encExec{} }} }

// genEnc (C18): exhaustive small key tables + random long keys + targeted
// long prefix-related primaries; integers; LPM keys.
func genEnc(cfg Config, emit func(string, bool, []string)) {
	r := newRand(cfg.Seed, 18)
	alpha := []byte{0x00, 0x01, 0x02, 0xff, 'a'}
	table := [][]byte{{}}
	var rec func(prefix []byte, depth int)
	rec = func(prefix []byte, depth int) {
		if depth == 0 {
			return
		}
		for _, b := range alpha {
			k := append(append([]byte{}, prefix...), b)
			table = append(table, k)
			rec(k, depth-1)
		}
	}
	maxDepth := 2
	if cfg.Thorough() {
		maxDepth = 3
	}
	rec(nil, maxDepth)

	var ops []string
	for _, k := range table {
		ops = append(ops, "enc "+hx(k))
	}
	emit("exhaustive-enc", true, ops)

	prim := [][]byte{{}, {0x00}, {0x01}, {'a'}, {'a', 0x00}, {0xff}}
	ops = nil
	for i, s1 := range table {
		for j, s2 := range table {
			if !cfg.Thorough() && (i+j)%3 != 0 && i != j {
				continue
			}
			p1 := prim[(i+2*j)%len(prim)]
			p2 := prim[(2*i+j)%len(prim)]
			ops = append(ops, fmt.Sprintf("cmp %s %s %s %s", hx(p1), hx(s1), hx(p2), hx(s2)))
			if len(ops) == 4000 {
				emit("exhaustive-secondary-pairs", true, ops)
				ops = nil
			}
		}
	}
	emit("exhaustive-secondary-pairs", true, ops)
	ops = nil
	for _, p1 := range table {
		for _, p2 := range table {
			ops = append(ops, fmt.Sprintf("cmp %s x73 %s x73", hx(p1), hx(p2)))
			ops = append(ops, fmt.Sprintf("comp %s %s", hx(p1), hx(p2)))
		}
	}
	emit("exhaustive-primary-pairs", true, ops)

	n := 300
	if cfg.Thorough() {
		n = 3000
	}
	for c := 0; c < n; c++ {
		maxLen := 6
		if c%10 == 0 {
			maxLen = 700
		}
		p1, s1 := genKey(r, maxLen), genKey(r, 6)
		p2, s2 := genKey(r, maxLen), genKey(r, 6)
		switch r.IntN(4) {
		case 0:
			s2 = s1
		case 1:
			s2 = s1
			p2 = append(append([]byte{}, p1...), genKey(r, 2)...)
		}
		emit("random", true, []string{
			"enc " + hx(p1),
			fmt.Sprintf("comp %s %s", hx(p1), hx(s1)),
			fmt.Sprintf("cmp %s %s %s %s", hx(p1), hx(s1), hx(p2), hx(s2)),
			fmt.Sprintf("cmp %s %s %s %s", hx(p2), hx(s2), hx(p1), hx(s1)),
		})
	}
	// medium-length keys (7-20 bytes) over the bytes the escaping cares about, with and without the
	// separator byte, and pairs that differ only in how an escape sequence could be misread
	ops = nil
	mid := func(withZero bool) []byte {
		k := make([]byte, 7+r.IntN(14))
		for i := range k {
			al := []byte{0x01, 0x01, 0x02, 'a', 0xff, 0x03}
			if withZero {
				al = append(al, 0x00, 0x00)
			}
			k[i] = al[r.IntN(len(al))]
		}
		return k
	}
	for c := 0; c < n/2; c++ {
		k1 := mid(c%3 == 0)
		var k2 []byte
		switch c % 4 {
		case 0:
			k2 = mid(c%3 == 1)
		case 1:
			// what an unescaped 0x01 0x01 would be read as
			tail := mid(false)
			k1 = append([]byte{0x00}, tail...)
			k2 = append([]byte{0x01, 0x01}, tail...)
		case 2:
			tail := mid(false)
			k1 = append([]byte{0x01}, tail...)
			k2 = append([]byte{0x01, 0x02}, tail...)
		case 3:
			k2 = append(append([]byte{}, k1[:len(k1)/2]...), mid(false)...)
		}
		ops = append(ops, "enc "+hx(k1), "enc "+hx(k2),
			fmt.Sprintf("cmp x70 %s x70 %s", hx(k1), hx(k2)),
			fmt.Sprintf("cmp %s x73 %s x73", hx(k1), hx(k2)),
			fmt.Sprintf("comp %s %s", hx(k1), hx(k2)))
	}
	emit("medium-length-keys", true, ops)

	// targeted: same secondary, prefix-related primaries around the 256-byte
	// encoded length (the uint16 length suffix starts to compete with key bytes)
	ops = nil
	for _, base := range []int{100, 127, 128, 200, 254, 255, 256, 257, 300, 511, 512, 600} {
		for _, fill := range []byte{0x00, 0x02, 'a'} {
			for _, ext := range [][]byte{{0x00}, {0x01}, {0x02}, {0x03}, {'a'}, {0xff}, {0x02, 0x00}} {
				p1 := bytes.Repeat([]byte{fill}, base)
				p2 := append(append([]byte{}, p1...), ext...)
				ops = append(ops, fmt.Sprintf("cmp %s x6b %s x6b", hx(p1), hx(p2)))
			}
		}
	}
	emit("long-prefix-related-primaries", true, ops)

	edge64 := []uint64{0, 1, 2, 255, 256, 257, 65535, 65536, 1<<31 - 1, 1 << 31, 1<<32 - 1, 1 << 32, 1<<32 + 1, 1<<63 - 1, 1 << 63, 1<<64 - 1}
	for i := 0; i < 200; i++ {
		edge64 = append(edge64, r.Uint64()>>uint(r.IntN(64)))
	}
	ops = nil
	for _, a := range edge64 {
		for _, b := range edge64[:24] {
			ops = append(ops,
				fmt.Sprintf("uintp 8 %d %d", a, b),
				fmt.Sprintf("uintp 4 %d %d", a&0xffffffff, b&0xffffffff),
				fmt.Sprintf("uintp 2 %d %d", a&0xffff, b&0xffff),
				fmt.Sprintf("intp 8 %d %d", int64(a), int64(b)),
				fmt.Sprintf("intp 4 %d %d", int64(int32(a)), int64(int32(b))),
				fmt.Sprintf("intp 2 %d %d", int64(int16(a)), int64(int16(b))),
				fmt.Sprintf("pintp %d %d", int64(a), int64(b)))
		}
	}
	ops = append(ops, "bool")
	emit("ints", true, ops)

	ops = nil
	for i := 0; i < 400; i++ {
		n := r.IntN(5)
		if i%8 == 7 {
			// long keys: prefix lengths around and beyond 256 bits (two length bytes in use)
			n = []int{31, 32, 33, 40, 64, 65}[r.IntN(6)]
		}
		d := make([]byte, n)
		for j := range d {
			if r.IntN(3) == 0 {
				d[j] = 0xff
			} else {
				d[j] = byte(r.IntN(256))
			}
		}
		l := r.IntN(len(d)*8 + 3)
		if i%8 == 7 && r.IntN(2) == 0 {
			l = len(d)*8 - r.IntN(9)
		}
		ops = append(ops, fmt.Sprintf("lpm %s %d", hx(d), l))
	}
	emit("lpm", true, ops)

	// netip.Prefix -> LPM key (lpm.NetIPPrefixToIndexKey): IPv4 prefixes live in the IPv4-mapped
	// part of the IPv6 space; distinct prefixes must give distinct keys, also the two default routes
	ops = []string{"netip x00000000 0", "netip x00000000000000000000000000000000 0", "netip x0a000000 8", "netip x0a000000 0"}
	for i := 0; i < 120; i++ {
		n := []int{4, 4, 16}[r.IntN(3)]
		d := make([]byte, n)
		for j := range d {
			if r.IntN(3) != 0 {
				d[j] = byte(r.IntN(256))
			}
		}
		if n == 16 && d[0] == 0 {
			d[0] = 0x20 // never an IPv4-mapped IPv6 address (those coincide with IPv4 prefixes by design)
		}
		l := r.IntN(n*8 + 1)
		if r.IntN(5) == 0 {
			l = []int{0, 1, n * 8}[r.IntN(3)]
		}
		ops = append(ops, fmt.Sprintf("netip %s %d", hx(d), l))
	}
	emit("netip", true, ops)

	// KeySet constructors (index/keyset.go, string.go, map.go, set.go, seq.go): every key of the
	// collection is visited by Foreach and found by Exists, also empty keys, repeated keys, sets of
	// one / zero elements
	ops = nil
	ctors := []string{"new", "strslice", "stringerslice", "seq", "seq2", "stringerseq", "stringerseq2", "set", "stringmap"}
	nks := 120
	if cfg.Thorough() {
		nks = 1200
	}
	for i := 0; i < nks; i++ {
		n := r.IntN(5)
		if i%7 == 0 {
			n = r.IntN(2)
		}
		if i%4 == 1 {
			n = 7 + r.IntN(10) // larger key sets (tags of one object)
		}
		var keys []string
		for j := 0; j < n; j++ {
			k := make([]byte, r.IntN(3)+n/6)
			for x := range k {
				k[x] = "ab"[r.IntN(2)]
			}
			if r.IntN(5) == 0 {
				k = nil
			}
			keys = append(keys, hx(k))
		}
		probe := hx([]byte{"ab"[r.IntN(2)]})
		if r.IntN(3) == 0 {
			probe = "x"
		}
		ops = append(ops, fmt.Sprintf("ks %s %s %s", ctors[i%len(ctors)], probe, strings.Join(keys, ",")))
	}
	emit("keysets", true, ops)
}

type encExec struct{ netipSeen map[string]string }

func (*encExec) Close() {}

func (e *encExec) Do(o *Out, f []string) string {
	switch f[0] {
	case "netip":
		a := unhx(f[1])
		bits, _ := strconv.Atoi(f[2])
		addr, ok := netip.AddrFromSlice(a)
		if !ok {
			return "bad-op"
		}
		p := netip.PrefixFrom(addr, bits)
		key := lpm.NetIPPrefixToIndexKey(p)
		canon := p.Masked().String()
		if e.netipSeen == nil {
			e.netipSeen = map[string]string{}
		}
		if other, dup := e.netipSeen[string(key)]; dup && other != canon {
			o.Fail("C18", "netip-prefix-keys-collide", nil, fmt.Sprintf("the prefixes %s and %s have the same LPM key %s", other, canon, hx(key)))
		}
		e.netipSeen[string(key)] = canon
		data, pl := lpm.DecodeLPMKey(key)
		want16 := p.Masked().Addr().As16()
		wantBits := bits
		if addr.Is4() {
			wantBits += 96
		}
		if int(pl) != wantBits || !bytes.Equal(data, want16[:(wantBits+7)/8]) {
			o.Fail("C18", "lpm-roundtrip", map[string]string{"encoder": "NetIPPrefixToIndexKey"}, fmt.Sprintf("NetIPPrefixToIndexKey(%s) = %s decodes to (%s, %d), want (%s, %d)", p, hx(key), hx(data), pl, hx(want16[:(wantBits+7)/8]), wantBits))
		}
		return hx(key)
	case "enc":
		k := unhx(f[1])
		return fmt.Sprintf("%s %d", hx(statedb.VerifEncodeNonUniqueBytes(k)), statedb.VerifEncodedLength(k))
	case "comp":
		p, s := unhx(f[1]), unhx(f[2])
		c := statedb.VerifEncodeNonUniqueKey(p, s)
		{
			// the same pair with both keys cut from ONE buffer that has room behind them (several keys
			// of a KeySet made from one buffer): the encoder must not write into its inputs' buffer and
			// the composite key must not change when the caller goes on using it
			buf := make([]byte, 0, len(p)+len(s)+64)
			buf = append(buf, s...)
			s2 := buf[:len(s)]
			buf = append(buf, p...)
			p2 := buf[len(s) : len(s)+len(p)]
			full := buf[:cap(buf)]
			for i := len(s) + len(p); i < len(full); i++ {
				full[i] = 0x5a
			}
			before := append([]byte{}, full...)
			c2 := statedb.VerifEncodeNonUniqueKey(p2, s2)
			if !bytes.Equal(full, before) {
				o.Fail("C18", "composite-encoder-wrote-to-input", nil, fmt.Sprintf("composite(%s,%s) changed the buffer its keys were cut from: %s -> %s", hx(p), hx(s), hx(before), hx(full)))
			}
			if !bytes.Equal(c2, c) {
				o.Fail("C18", "composite-equal-values-different-keys", nil, fmt.Sprintf("composite(%s,%s) gives %s from exact-capacity keys and %s from keys with spare capacity", hx(p), hx(s), hx(c), hx(c2)))
			}
			keep := append([]byte{}, c2...)
			for i := range full {
				full[i] = 0xc3
			}
			if !bytes.Equal(c2, keep) {
				o.Fail("C18", "composite-key-aliases-input", nil, fmt.Sprintf("the key returned by composite(%s,%s) changed when the caller reused the buffer the keys were cut from", hx(p), hx(s)))
			}
		}
		pl, sl, ep, es := statedb.VerifNonUniqueKeySplit(c)
		encP, encS := statedb.VerifEncodeNonUniqueBytes(p), statedb.VerifEncodeNonUniqueBytes(s)
		if !bytes.Equal(ep, encP) || !bytes.Equal(es, encS) || pl != len(encP) || sl != len(encS) {
			o.Fail("C18", "composite-split", map[string]string{"enc_primary_len_ge_65536": strconv.FormatBool(len(encP) >= 65536)},
				fmt.Sprintf("split of composite(%s,%s) gives (%d,%d,%s,%s)", hx(p), hx(s), pl, sl, hx(ep), hx(es)))
		}
		return fmt.Sprintf("%s %d %d %s %s", hx(c), pl, sl, hx(ep), hx(es))
	case "cmp":
		p1, s1, p2, s2 := unhx(f[1]), unhx(f[2]), unhx(f[3]), unhx(f[4])
		c1 := statedb.VerifEncodeNonUniqueKey(p1, s1)
		c2 := statedb.VerifEncodeNonUniqueKey(p2, s2)
		got := bytes.Compare(c1, c2)
		want := bytes.Compare(s1, s2)
		if want == 0 {
			want = bytes.Compare(p1, p2)
		}
		if got != want {
			e1, e2 := statedb.VerifEncodedLength(p1), statedb.VerifEncodedLength(p2)
			feat := map[string]string{
				"same_secondary":             strconv.FormatBool(bytes.Equal(s1, s2)),
				"primaries_prefix_related":   strconv.FormatBool(bytes.HasPrefix(p1, p2) || bytes.HasPrefix(p2, p1)),
				"shorter_enc_primary_ge_256": strconv.FormatBool(min(e1, e2) >= 256),
				"collision":                  strconv.FormatBool(got == 0),
			}
			o.Fail("C18", "composite-order", feat,
				fmt.Sprintf("compare(composite(p1,s1), composite(p2,s2)) = %d, want %d; |enc p1|=%d |enc p2|=%d", got, want, e1, e2))
		}
		return strconv.Itoa(got)
	case "uintp":
		w, _ := strconv.Atoi(f[1])
		a, _ := strconv.ParseUint(f[2], 10, 64)
		b, _ := strconv.ParseUint(f[3], 10, 64)
		enc := func(x uint64) []byte {
			switch w {
			case 8:
				return index.Uint64(x)
			case 4:
				return index.Uint32(uint32(x))
			default:
				return index.Uint16(uint16(x))
			}
		}
		// keys are composed by appending to them: that leaves the encoder's later answers alone
		manual := func(x uint64) []byte {
			out := make([]byte, w)
			for i := w - 1; i >= 0; i-- {
				out[i] = byte(x)
				x >>= 8
			}
			return out
		}
		for _, x := range []uint64{a, a % 251} {
			k := append(enc(x), 0xEE, 0xEE, 0xEE, 0xEE, 0xEE, 0xEE, 0xEE, 0xEE)
			_ = k
			for _, y := range []uint64{x, x + 1, x + 2} {
				if got := enc(y); !bytes.Equal(got, manual(y)) {
					o.Fail("C18", "int-key-aliased", map[string]string{"width": f[1]},
						fmt.Sprintf("after append(Uint%d(%d), ...) the encoder answers Uint%d(%d) = %s, want %s — equal values no longer give equal keys", w*8, x, w*8, y, hx(got), hx(manual(y))))
				}
			}
		}
		ka, kb := enc(a), enc(b)
		want := 0
		if a < b {
			want = -1
		} else if a > b {
			want = 1
		}
		got := bytes.Compare(ka, kb)
		if got != want {
			o.Fail("C18", "uint-order", map[string]string{"width": f[1]},
				fmt.Sprintf("Uint%d(%d) vs Uint%d(%d): compare=%d want %d", w*8, a, w*8, b, got, want))
		}
		return fmt.Sprintf("%s %d", hx(ka), got)
	case "intp":
		w, _ := strconv.Atoi(f[1])
		a, _ := strconv.ParseInt(f[2], 10, 64)
		b, _ := strconv.ParseInt(f[3], 10, 64)
		enc := func(x int64) []byte {
			switch w {
			case 8:
				return index.Int64(x)
			case 4:
				return index.Int32(int32(x))
			default:
				return index.Int16(int16(x))
			}
		}
		ka, kb := enc(a), enc(b)
		eq := bytes.Equal(ka, kb)
		if eq != (a == b) {
			o.Fail("C18", "int-injective", map[string]string{"width": f[1]},
				fmt.Sprintf("Int%d(%d) vs Int%d(%d): equal keys=%v", w*8, a, w*8, b, eq))
		}
		return fmt.Sprintf("%s %v", hx(ka), eq)
	case "pintp":
		a, _ := strconv.ParseInt(f[1], 10, 64)
		b, _ := strconv.ParseInt(f[2], 10, 64)
		ka, kb := index.Int(int(a)), index.Int(int(b))
		eq := bytes.Equal(ka, kb)
		if eq != (a == b) {
			o.Fail("C18", "platform-int-injective",
				map[string]string{"congruent_mod_2_32": strconv.FormatBool(uint32(a) == uint32(b)), "encoder": "index.Int"},
				fmt.Sprintf("index.Int(%d) and index.Int(%d) give equal keys=%v", a, b, eq))
		}
		return fmt.Sprintf("%s %v", hx(ka), eq)
	case "ks":
		// ks <constructor> <probe key> <k1,k2,...>
		var elems []string
		if len(f) > 3 && f[3] != "" {
			for _, h := range strings.Split(f[3], ",") {
				elems = append(elems, string(unhx(h)))
			}
		}
		seq := func(yield func(string) bool) {
			for _, e := range elems {
				if !yield(e) {
					return
				}
			}
		}
		seq2 := func(yield func(ksStringer, int) bool) {
			for i, e := range elems {
				if !yield(ksStringer(e), i) {
					return
				}
			}
		}
		var ks index.KeySet
		ordered := true
		switch f[1] {
		case "new":
			var keys []index.Key
			for _, e := range elems {
				keys = append(keys, index.String(e))
			}
			ks = index.NewKeySet(keys...)
		case "strslice":
			ks = index.StringSlice(elems)
		case "stringerslice":
			var ss []ksStringer
			for _, e := range elems {
				ss = append(ss, ksStringer(e))
			}
			ks = index.StringerSlice(ss)
		case "seq":
			ks = index.Seq(index.String, seq)
		case "seq2":
			ks = index.Seq2(func(s ksStringer) index.Key { return index.String(string(s)) }, seq2)
		case "stringerseq":
			ks = index.StringerSeq(func(yield func(ksStringer) bool) {
				for _, e := range elems {
					if !yield(ksStringer(e)) {
						return
					}
				}
			})
		case "stringerseq2":
			ks = index.StringerSeq2(seq2)
		case "set":
			ks = index.Set(part.NewSet(elems...))
			ordered = false
		case "stringmap":
			m := map[string]int{}
			for i, e := range elems {
				m[e] = i
			}
			ks = index.StringMap(m)
			ordered = false
		default:
			return "bad-op"
		}
		var got []string
		ks.Foreach(func(k index.Key) { got = append(got, string(k)) })
		want := append([]string{}, elems...)
		if !ordered {
			// a set / a map: each distinct element once, in an order of its own
			seen := map[string]bool{}
			want = nil
			for _, e := range elems {
				if !seen[e] {
					seen[e] = true
					want = append(want, e)
				}
			}
			sort.Strings(want)
			sort.Strings(got)
		}
		if strings.Join(hxs(got), ",") != strings.Join(hxs(want), ",") {
			o.Fail("C04", "keyset-incomplete", map[string]string{"constructor": f[1]}, fmt.Sprintf("index.%s over %v: Foreach visits %v", f[1], hxs(want), hxs(got)))
		}
		for _, e := range want {
			if !ks.Exists(index.String(e)) {
				o.Fail("C04", "keyset-incomplete", map[string]string{"constructor": f[1], "op": "exists"}, fmt.Sprintf("index.%s over %v: Exists(%s) is false", f[1], hxs(want), hx([]byte(e))))
			}
		}
		probe := string(unhx(f[2]))
		ex := ks.Exists(index.String(probe))
		wantEx := false
		for _, e := range want {
			if e == probe {
				wantEx = true
			}
		}
		if ex != wantEx {
			o.Fail("C04", "keyset-exists", map[string]string{"constructor": f[1], "empty_probe": strconv.FormatBool(probe == "")}, fmt.Sprintf("index.%s over %v: Exists(%s)=%v", f[1], hxs(want), hx([]byte(probe)), ex))
		}
		return fmt.Sprintf("%s %v", strings.Join(hxs(got), ","), ex)
	case "bool":
		if bytes.Equal(index.Bool(false), index.Bool(true)) {
			o.Fail("C18", "bool-injective", nil, "Bool(false) == Bool(true)")
		}
		// keys are composed by appending to them (index.Key(append(index.Bool(b), more...))): the
		// encoder's answers stay what they were afterwards
		f0, t0 := bytes.Clone(index.Bool(false)), bytes.Clone(index.Bool(true))
		for _, b := range []bool{false, true} {
			k1 := append(index.Bool(b), 'x')
			k2 := append(index.Bool(b), 'x', 'y', 'z')
			_, _ = k1, k2
			if !bytes.Equal(index.Bool(false), f0) || !bytes.Equal(index.Bool(true), t0) {
				o.Fail("C18", "bool-key-aliased", map[string]string{"appended_to": strconv.FormatBool(b)},
					fmt.Sprintf("after append(index.Bool(%v), 'x'): Bool(false)=%s Bool(true)=%s, before %s %s — equal values no longer give equal keys", b, hx(index.Bool(false)), hx(index.Bool(true)), hx(f0), hx(t0)))
			}
		}
		return hx(index.Bool(false)) + " " + hx(index.Bool(true))
	case "lpm":
		d := unhx(f[1])
		l64, _ := strconv.Atoi(f[2])
		l := uint16(l64)
		var key []byte
		func() {
			defer func() {
				if recover() != nil {
					key = nil
				}
			}()
			key = lpm.EncodeLPMKey(d, l)
		}()
		if key == nil {
			o.ObsHist["lpmenc-panic"]++
			return "panic"
		}
		// the same value handed over as a sub-slice of a larger buffer (spare capacity): the
		// encoder must neither write to its input nor return a key that shares memory with it
		if n := int((l + 7) / 8); n <= len(d) {
			buf := make([]byte, n+6)
			copy(buf, d[:n])
			for i := n; i < len(buf); i++ {
				buf[i] = 0xee
			}
			before := append([]byte{}, buf...)
			var key2 []byte
			func() {
				defer func() { _ = recover() }()
				key2 = lpm.EncodeLPMKey(buf[:n], l)
			}()
			if key2 != nil {
				if !bytes.Equal(buf, before) {
					o.Fail("C18", "lpm-encoder-wrote-to-input", nil, fmt.Sprintf("EncodeLPMKey(%s,%d) changed the caller's buffer from %s to %s", hx(d[:n]), l, hx(before), hx(buf)))
				}
				if !bytes.Equal(key2, key) {
					o.Fail("C18", "lpm-equal-values-different-keys", nil, fmt.Sprintf("EncodeLPMKey of the same %d-bit value gives %s and %s", l, hx(key), hx(key2)))
				}
				snap := append([]byte{}, key2...)
				for i := range buf {
					buf[i] ^= 0xff
				}
				if !bytes.Equal(key2, snap) {
					o.Fail("C18", "lpm-key-aliases-input", nil, fmt.Sprintf("the key returned by EncodeLPMKey(%s,%d) changed when the caller reused its buffer", hx(d[:n]), l))
				}
			}
		}
		data, pl := lpm.DecodeLPMKey(key)
		ok := pl == l && len(data) == int((l+7)/8)
		for i := 0; ok && i < len(data)*8; i++ {
			bit := (data[i/8] >> (7 - i%8)) & 1
			want := byte(0)
			if i < int(l) {
				want = (d[i/8] >> (7 - i%8)) & 1
			}
			if bit != want {
				ok = false
			}
		}
		if !ok {
			o.Fail("C18", "lpm-roundtrip", nil, fmt.Sprintf("EncodeLPMKey(%s,%d) -> %s -> (%s,%d)", hx(d), l, hx(key), hx(data), pl))
		}
		return fmt.Sprintf("%s %s %d", hx(key), hx(data), pl)
	}
	return "bad-op"
}

type ksStringer string

func (s ksStringer) String() string { return string(s) }

func hxs(ss []string) []string {
	out := make([]string, len(ss))
	for i, s := range ss {
		out[i] = hx([]byte(s))
	}
	return out
}
