package main

import (
	"os"
	"strings"
	"testing"
	"testing/synctest"
)

// TestHarness turns the harness into a test binary so that suites can use
// testing/synctest (virtual time):  HARNESS_ARGS="ws -seed 1 ..." harness.test -test.run '^TestHarness$'
func TestHarness(t *testing.T) {
	args := strings.Fields(os.Getenv("HARNESS_ARGS"))
	if len(args) == 0 {
		t.Skip("HARNESS_ARGS not set")
	}
	bubble = func(f func()) {
		synctest.Test(t, func(*testing.T) { f() })
	}
	runMain(args)
}
