package main

import (
	"sync/atomic"
	"context"
	"errors"
	"fmt"
	"io"
	"iter"
	"log/slog"
	"runtime"
	"sort"
	"strconv"
	"strings"
	"sync"
	"testing/synctest"
	"time"

	"github.com/cilium/hive"
	"github.com/cilium/hive/cell"
	"github.com/cilium/hive/job"
	"github.com/cilium/statedb"
	"github.com/cilium/statedb/index"
	"github.com/cilium/statedb/reconciler"
	"golang.org/x/time/rate"
)

func init() {
	suites["rec"] = SuiteDef{Gen: genRec, NewExec: func(h string) Exec { return &recExec{} }, Synctest: true}
}

// ---------------------------------------------------------------------------
// generator

func genRec(cfg Config, emit func(string, bool, []string)) {
	n := 150
	steps := 30
	if cfg.Thorough() {
		n, steps = 1500, 80
	}
	for c := 0; c < n; c++ {
		r := newRand(cfg.Seed, uint64(1400+c))
		var ops []string
		add := func(f string, a ...any) { ops = append(ops, fmt.Sprintf(f, a...)) }
		if c%50 == 44 {
			add("tinybackoff %d %d", []int{1, 1000, 20000}[r.IntN(3)], 1+r.IntN(3))
			emit("rec realtime tiny-backoff", true, ops)
			continue
		}
		minB := []int{50, 100, 100, 200}[r.IntN(4)]
		maxB := minB * []int{1, 2, 8, 16}[r.IntN(4)]
		roundSize := []int{1000, 1000, 1, 2, 3}[r.IntN(5)]
		truncated := c%25 == 8 || c%25 == 11 // rounds cut short by the round size in the middle of a transaction's changes
		if truncated {
			roundSize = 1 + r.IntN(3)
		}
		ancient := c%25 == 12
		if ancient {
			// backoff in hours: an object that has been failing for days
			minB = []int{3600000, 5400000, 86400000}[r.IntN(3)]
			maxB = minB * 2
		}
		mode := "exact"
		batch := 0
		if c%4 == 3 {
			batch = 1 // batch operations (Model.ReconcilerBatch)
		}
		set := ""
		if c%2 == 1 {
			set = "-set" // status kept in a reconciler.StatusSet
		}
		refresh := ""
		if c%10 == 6 {
			// refreshing and pruning enabled (not in the Lean model: decided by the oracle only)
			mode, refresh = "oracle", "-refresh"
			maxB = minB * 16 // the backoff of a long-failing object outgrows the refresh interval (700 ms)
			if c%20 == 16 {
				// ... on a table whose initializer stays pending over several prune intervals
				refresh = "-refresh-init"
			}
		}
		gcCase := c%25 == 17
		if gcCase {
			mode = "oracle" // time passes inside an Update: decided by the oracle only
		}
		add("cfg %d %d %d %s%s%s%s", minB, maxB, roundSize, mode, set, map[int]string{0: "", 1: "-batch"}[batch], refresh)
		if gcCase {
			// the reconciler has not been handed any deletion yet; while it is busy in an Update the user
			// deletes another object and the collector runs on behalf of another iterator
			add("put 1 %d", r.IntN(100))
			add("advance 7")
			add("inject 2 gc 1 0")
			add("put 2 %d", r.IntN(100))
			add("advance 33")
			add("obs")
			add("advance 3001") // the Update (and the collector run inside it) is over
			add("obs")
			add("put 3 %d", r.IntN(100))
			add("advance 33")
			add("obs")
		}
		if c%25 == 3 && refresh == "" && !gcCase && !truncated {
			// external prune requests (Reconciler.Prune) with periodic pruning off, on a table that is
			// initialized from the start or whose initializer is marked done later: the number of Prune
			// calls is compared with the iteration function translated from reconcileLoop
			withInit := r.IntN(3) != 0
			ops[len(ops)-1] += "-xprune"
			if withInit {
				ops[len(ops)-1] += "-init"
			}
			done := !withInit
			for k := 0; k < 14; k++ {
				switch x := r.IntN(10); {
				case x < 4:
					add("extprune")
				case x < 5 && !done:
					add("initdone")
					done = true
				case x < 8:
					add("put %d %d", 1+r.IntN(3), r.IntN(100))
				case x < 9:
					add("del %d", 1+r.IntN(3))
				default:
					add("advance %d", 1+r.IntN(300))
				}
			}
			if !done {
				add("initdone")
			}
			add("extprune")
			add("obs")
		}
		if c%25 == 9 && refresh == "" && !gcCase && !truncated {
			// operations that take longer than the backoff: the wait before a retry counts from the failure
			ops[len(ops)-1] = strings.Replace(ops[len(ops)-1], " exact", " oracle", 1)
			add("fail 1 1")
			add("inject 1 sleep 1 %d", minB*3+r.IntN(200))
			add("put 1 %d", r.IntN(100))
			add("advance %d", minB*4+300)
			add("obs")
			add("inject 1 sleep 1 %d", minB*5+r.IntN(200))
			add("advance %d", minB*16+300)
			add("obs")
			add("put 2 %d", r.IntN(100))
			add("inject 2 sleep 2 %d", minB*2+50)
			add("advance %d", maxB+minB*8)
			add("obs")
			add("fail 1 0")
			add("advance %d", 4*maxB+1000)
			add("obs")
			add("final")
			emit(fmt.Sprintf("rec slow-operations round=%d", roundSize), true, ops)
			continue
		}
		if c%25 == 21 && refresh == "" && !gcCase {
			// a round filled to its limit by new changes in which the set of failed objects changes
			// (first failure / the only failed object rewritten and succeeding), followed at once by
			// another round: what WaitUntilReconciled reports while that round runs
			k := roundSize
			if k > 3 {
				k = 1 + r.IntN(3)
				ops[len(ops)-1] = strings.Replace(ops[len(ops)-1], fmt.Sprintf(" %d %s", roundSize, mode), fmt.Sprintf(" %d %s", k, mode), 1)
			}
			add("fail 1 1")
			var sp []string
			for j := 1; j <= k+1+r.IntN(2); j++ {
				sp = append(sp, fmt.Sprintf("p%d:%d", j, r.IntN(100)))
			}
			add("multi %s", strings.Join(sp, ","))
			add("advance 3")
			add("obs")
			add("fail 1 0")
			sp = nil
			for j := 1; j <= k+1; j++ {
				sp = append(sp, fmt.Sprintf("p%d:%d", j, r.IntN(100)))
			}
			add("multi %s", strings.Join(sp, ","))
			add("advance 3")
			add("obs")
			add("advance %d", maxB+7)
			add("obs")
		}
		nid := 1 + r.IntN(4)
		clock := 0
		if refresh != "" {
			// an object nobody asked to reconcile, and one that keeps failing for longer than the refresh
			// interval (its backoff outgrows it): refreshing does not touch either
			add("putraw 9 %d", r.IntN(100))
			add("fail 8 1")
			add("put 8 %d", r.IntN(100))
			for k := 0; k < 7; k++ {
				add("advance %d", []int{211, 397, 809, 1201}[r.IntN(4)])
				add("obs")
			}
			add("fail 8 0")
			add("advance %d", maxB+1)
			add("obs")
		}
		if refresh == "-refresh-init" {
			for id := 1; id <= 3; id++ {
				add("put %d %d", id, r.IntN(100))
			}
			add("advance 1201")
			add("obs")
			add("advance 1103")
			add("obs")
			add("initdone")
			add("advance 1109")
			add("obs")
		}
		if truncated {
			// several deletions (and an update) committed by ONE transaction, more than a round takes
			for id := 1; id <= 5; id++ {
				add("put %d %d", id, r.IntN(100))
			}
			add("advance 7")
			add("obs")
			if r.IntN(2) == 0 {
				add("multi d1,d2,d3,p4:%d", r.IntN(100))
			} else {
				add("multi d1,d2,d3,d5")
			}
			add("advance 7")
			add("obs")
			add("advance 33")
			add("obs")
		}
		if refresh != "" {
			// objects get old enough to be refreshed; user writes land exactly when the refresher acts
			nid = 2 + r.IntN(2)
			for id := 1; id <= nid; id++ {
				add("put %d %d", id, r.IntN(100))
				add("advance %d", []int{1, 7, 33}[r.IntN(3)])
			}
			for k := 0; k < 4; k++ {
				id := 1 + r.IntN(nid)
				if r.IntN(3) == 0 {
					add("delheld %d", id)
					add("advance 33")
					add("put %d %d", id, r.IntN(100))
				} else {
					add("putheld %d %d", id, r.IntN(100))
				}
				add("advance %d", []int{61, 103, 211}[r.IntN(3)])
				add("obs")
				add("advance 809")
			}
		}
		if ancient {
			// one object keeps failing for 40 retry periods (and a second one joins half way)
			add("put 1 %d", r.IntN(100))
			add("fail 1 1")
			add("fail 2 1")
			for k := 0; k < 40; k++ {
				add("advance %d", maxB+[]int{1, 7, 33, 61}[r.IntN(4)])
				add("obs")
				if k == 20 {
					add("put 2 %d", r.IntN(100))
				}
			}
			add("fail 1 0")
			add("advance %d", maxB+1)
			add("obs")
		}
		if c%5 == 2 {
			// long-failing operations side by side: updates and a delete that keep failing over
			// several retry periods while the retry low-watermark is observed
			nid = 3 + r.IntN(2)
			for id := 1; id <= nid; id++ {
				add("put %d %d", id, r.IntN(100))
			}
			add("advance 7")
			for id := 1; id <= nid; id++ {
				add("fail %d 1", id)
			}
			victim := 1 + r.IntN(nid)
			for id := 1; id <= nid; id++ {
				if id == victim {
					add("del %d", id)
				} else {
					add("put %d %d", id, r.IntN(100))
				}
				add("advance %d", []int{1, 7, 33}[r.IntN(3)])
			}
			for k := 0; k < 6; k++ {
				add("advance %d", minB+[]int{1, 7, 33, 61}[r.IntN(4)])
				add("obs")
			}
			// one of them recovers, the others keep failing
			add("fail %d 0", 1+r.IntN(nid))
			for k := 0; k < 4; k++ {
				add("advance %d", maxB+[]int{1, 7, 33}[r.IntN(3)])
				add("obs")
			}
		}
		for i := 0; i < steps; i++ {
			id := 1 + r.IntN(nid)
			switch x := r.IntN(100); {
			case x < 3 && refresh == "":
				// two or three writes in one transaction
				var sp []string
				for k := 2 + r.IntN(2); k > 0; k-- {
					j := 1 + r.IntN(nid)
					if r.IntN(2) == 0 {
						sp = append(sp, fmt.Sprintf("d%d", j))
					} else {
						sp = append(sp, fmt.Sprintf("p%d:%d", j, r.IntN(100)))
					}
				}
				add("multi %s", strings.Join(sp, ","))
			case x < 5 && refresh == "":
				add("waiter %d", r.IntN(4))
			case x < 28:
				add("put %d %d", id, r.IntN(100))
			case x < 38:
				add("del %d", id)
			case x < 46:
				add("touch %d", id)
			case x < 58:
				add("fail %d %d", id, r.IntN(2))
			case x < 66:
				kinds := []string{"put", "del", "touch"}
				add("inject %d %s %d %d", id, kinds[r.IntN(3)], 1+r.IntN(nid), r.IntN(100))
			case x < 96:
				// odd step sizes keep timer instants apart
				d := []int{1, 7, 33, 61, 103, 211, 397, 809}[r.IntN(8)]
				clock += d
				add("advance %d", d)
			default:
				add("obs")
			}
		}
		// failures stop, the table stops changing: convergence within bounded retry periods
		for id := 1; id <= nid; id++ {
			add("fail %d 0", id)
		}
		add("advance %d", 2*maxB+13)
		add("advance %d", 2*maxB+17)
		add("final")
		emit(fmt.Sprintf("rec mode=%s round=%d", mode, roundSize), true, ops)
	}
}

// ---------------------------------------------------------------------------
// executor

type recObj struct {
	ID     uint64
	Data   int
	Other  int
	Status reconciler.Status
	// half of the cases keep the status in a StatusSet (the multi-reconciler API)
	UseSet bool
	Set    reconciler.StatusSet
}

func (o *recObj) TableHeader() []string { return []string{"ID", "Data", "Status"} }
func (o *recObj) TableRow() []string {
	return []string{strconv.FormatUint(o.ID, 10), strconv.Itoa(o.Data), o.GetStatus().Kind.String()}
}
func (o *recObj) Clone() *recObj { c := *o; return &c }
func (o *recObj) SetStatus(s reconciler.Status) *recObj {
	if o.UseSet {
		o.Set = o.Set.Set("r", s)
	} else {
		o.Status = s
	}
	return o
}
func (o *recObj) GetStatus() reconciler.Status {
	if o.UseSet {
		return o.Set.Get("r")
	}
	return o.Status
}

var recIDIndex = statedb.Index[*recObj, uint64]{
	Name:       "id",
	FromObject: func(o *recObj) index.KeySet { return index.NewKeySet(index.Uint64(o.ID)) },
	FromKey:    index.Uint64,
	FromString: index.Uint64String,
	Unique:     true,
}

type recCall struct {
	op      string
	id      uint64
	data    int
	ok      bool
	at      time.Duration
	pending uint64 // status id of the object passed
	kind    reconciler.StatusKind
	stale   bool   // the user had already changed / removed / re-created the object when this attempt ran
	rev     uint64 // the revision argument of the operation (the change being reconciled)
	round   int    // the reconciler's round the call was made in (rounds are told apart by their snapshot)
	end     time.Duration // when the operation returned (it may take time: injected sleeps)
}

type recExec struct {
	pruneCalls atomic.Int64
	pruneObs   bool // the number of Prune calls is part of the observation (cfg ...-xprune)
	waiters      []*recWaiter
	waiterCancel context.CancelFunc
	waiterCtx    context.Context
	tinyNs   int
	failOnce map[uint64]bool
	round   int
	lastTxn statedb.ReadTxn
	o             *Out
	db            *statedb.DB
	table         statedb.RWTable[*recObj]
	rec           reconciler.Reconciler[*recObj]
	hive          *hive.Hive
	log           *slog.Logger
	start         time.Time
	mu            sync.Mutex
	calls         []recCall
	printed       int
	failing       map[uint64]bool
	injects       map[uint64][]func()
	oracleOnly    bool
	useSet        bool
	batch         bool
	minB, maxB    time.Duration
	roundSize     int
	ref           map[uint64]recRef // what the user wrote last
	target        map[uint64]recTarget
	everDone      map[uint64]bool
	changedAt     map[uint64]time.Duration
	failStreak    map[uint64][]time.Duration
	attempts      map[uint64]int
	k4            map[uint64]bool
	delRev        map[uint64]uint64        // revision of the user's deletion of an object
	lwSamples     []lwSample               // low-watermark as reported while a round is in progress
	refresh       time.Duration            // refresh interval (0 = refreshing and pruning disabled)
	raw           map[uint64]bool          // objects written without a reconciliation request
	side          statedb.RWTable[*recObj] // an unrelated table with a plain change iterator (another user of the collector)
	sideIter      statedb.ChangeIterator[*recObj]
	withInit      bool // the table has an initializer that stays pending until `initdone`
	initDone      func(statedb.WriteTxn)
	retained      []retainedObj // object versions read earlier, with what they looked like then
	inUpdate      uint64
	inUpdateRetry bool
}

func tailCalls(cs []recCall, n int) string {
	if len(cs) > n {
		cs = cs[len(cs)-n:]
	}
	var p []string
	for _, c := range cs {
		p = append(p, fmt.Sprintf("%s%d:%d:%v@%v", c.op, c.id, c.data, c.ok, c.at))
	}
	return strings.Join(p, " ")
}

type retainedObj struct {
	obj  *recObj
	rev  uint64
	repr string
}

func reprObj(o *recObj) string {
	all := o.Set.All()
	names := make([]string, 0, len(all))
	for n := range all {
		names = append(names, n)
	}
	sort.Strings(names)
	p := []string{fmt.Sprintf("id=%d data=%d other=%d status=%s", o.ID, o.Data, o.Other, o.Status.Kind.String())}
	for _, n := range names {
		p = append(p, n+":"+all[n].Kind.String())
	}
	return strings.Join(p, " ")
}

type lwSample struct {
	ncalls int // calls recorded before the sample
	at     time.Duration
	lw     uint64
	round  int
}

// sampleLW: what WaitUntilReconciled reports right now (called from inside the target's
// operations, i.e. between the reconciler's rounds' progress updates)
func (e *recExec) sampleLW() {
	if e.rec == nil {
		return
	}
	e.mu.Lock()
	n := len(e.calls)
	e.mu.Unlock()
	ctx, cancel := context.WithCancel(context.Background())
	_, lw, _ := e.rec.WaitUntilReconciled(ctx, 0)
	cancel()
	e.mu.Lock()
	e.lwSamples = append(e.lwSamples, lwSample{n, e.since(), lw, e.round})
	e.mu.Unlock()
}

type recRef struct {
	data  int
	other int
	rev   uint64 // revision of the user's write
}

// recWaiter: a goroutine inside WaitUntilReconciled(ctx, target)
type recWaiter struct {
	target   uint64
	returned atomic.Bool
	rev, lw  uint64
	err      error
}

type recTarget struct {
	present bool
	data    int
}

func (e *recExec) Close() {
	if e.waiterCancel != nil {
		e.waiterCancel()
		synctest.Wait()
	}
	if e.sideIter != nil {
		// closed here, inside the bubble: the runtime cleanup of an unreachable iterator would run outside
		e.sideIter.Close()
		e.sideIter = nil
	}
	if e.hive != nil {
		e.hive.Stop(e.log, context.Background())
	}
}

func (e *recExec) since() time.Duration { return time.Since(e.start) }

// noteTxn: every round of the reconciler hands its operations one snapshot; a different snapshot
// is a later round (consecutive rounds run at the same virtual instant)
func (e *recExec) noteTxn(txn statedb.ReadTxn) {
	e.mu.Lock()
	if txn != e.lastTxn {
		e.round++
		e.lastTxn = txn
	}
	e.mu.Unlock()
}

// --- Operations / BatchOperations (the simulated target) ---

func (e *recExec) doUpdate(rev statedb.Revision, obj *recObj) error {
	e.sampleLW()
	e.mu.Lock()
	fail := e.failing[obj.ID] || e.failOnce[obj.ID]
	delete(e.failOnce, obj.ID)
	inj := e.injects[obj.ID]
	delete(e.injects, obj.ID)
	st := obj.GetStatus()
	ref, live := e.ref[obj.ID]
	c := recCall{op: "U", id: obj.ID, data: obj.Data, ok: !fail, at: e.since(), pending: st.ID, kind: st.Kind, stale: !live || ref.data != obj.Data, rev: uint64(rev), round: e.round}
	e.calls = append(e.calls, c)
	idx := len(e.calls) - 1
	if !fail {
		e.target[obj.ID] = recTarget{true, obj.Data}
	}
	if st.Kind == reconciler.StatusKindDone {
		e.o.Fail("C15", "updated-a-done-object", nil, fmt.Sprintf("Update called for object %d whose status is Done", obj.ID))
	}
	if st.Kind != reconciler.StatusKindPending && st.Kind != reconciler.StatusKindRefreshing && st.Kind != reconciler.StatusKindError && st.Kind != reconciler.StatusKindDone {
		e.o.Fail("C15", "updated-an-object-not-awaiting-reconciliation", map[string]string{"status": st.Kind.String()}, fmt.Sprintf("Update called for object %d whose status (%q) is neither pending nor refreshing: nobody asked for it to be reconciled", obj.ID, st.Kind.String()))
	}
	e.inUpdate, e.inUpdateRetry = obj.ID, e.attempts[obj.ID] > 0
	e.attempts[obj.ID]++
	e.mu.Unlock()
	for _, f := range inj {
		f()
	}
	e.mu.Lock()
	e.inUpdate = 0
	if idx < len(e.calls) {
		e.calls[idx].end = e.since()
	}
	e.mu.Unlock()
	if fail {
		return errors.New("fail")
	}
	return nil
}

func (e *recExec) doDelete(rev statedb.Revision, obj *recObj) error {
	e.mu.Lock()
	defer e.mu.Unlock()
	fail := e.failing[obj.ID]
	_, live := e.ref[obj.ID]
	e.calls = append(e.calls, recCall{op: "D", id: obj.ID, data: obj.Data, ok: !fail, at: e.since(), stale: live, rev: uint64(rev), round: e.round})
	if fail {
		return errors.New("fail")
	}
	e.target[obj.ID] = recTarget{false, 0}
	return nil
}

type recOps struct{ e *recExec }

func (o recOps) Update(ctx context.Context, txn statedb.ReadTxn, rev statedb.Revision, obj *recObj) error {
	o.e.noteTxn(txn)
	return o.e.doUpdate(rev, obj)
}
func (o recOps) Delete(ctx context.Context, txn statedb.ReadTxn, rev statedb.Revision, obj *recObj) error {
	o.e.noteTxn(txn)
	return o.e.doDelete(rev, obj)
}
func (o recOps) Prune(ctx context.Context, txn statedb.ReadTxn, objs iter.Seq2[*recObj, statedb.Revision]) error {
	// C15: Prune only once the table is initialized, and always with the table's complete contents
	e := o.e
	if ok, _ := e.table.Initialized(txn); !ok {
		e.o.Fail("C15", "prune-before-initialized", nil, "Prune called although the table is not initialized")
	}
	var got, want []string
	for obj, rev := range objs {
		got = append(got, fmt.Sprintf("%d:%d@%d", obj.ID, obj.Data, rev))
	}
	for obj, rev := range e.table.All(txn) {
		want = append(want, fmt.Sprintf("%d:%d@%d", obj.ID, obj.Data, rev))
	}
	if strings.Join(got, " ") != strings.Join(want, " ") {
		e.o.Fail("C15", "prune-with-partial-contents", nil, fmt.Sprintf("Prune was handed [%s], the table holds [%s]", strings.Join(got, " "), strings.Join(want, " ")))
	}
	e.o.Notes["prune calls"]++
	e.pruneCalls.Add(1)
	return nil
}
func (o recOps) UpdateBatch(ctx context.Context, txn statedb.ReadTxn, batch []reconciler.BatchEntry[*recObj]) {
	o.e.noteTxn(txn)
	for i := range batch {
		batch[i].Result = o.e.doUpdate(batch[i].Revision, batch[i].Object)
	}
}
func (o recOps) DeleteBatch(ctx context.Context, txn statedb.ReadTxn, batch []reconciler.BatchEntry[*recObj]) {
	o.e.noteTxn(txn)
	for i := range batch {
		batch[i].Result = o.e.doDelete(batch[i].Revision, batch[i].Object)
	}
}

func (e *recExec) setup(minB, maxB, roundSize int, batch bool) {
	e.start = time.Now()
	e.failing = map[uint64]bool{}
	e.raw = map[uint64]bool{}
	e.injects = map[uint64][]func(){}
	e.ref = map[uint64]recRef{}
	e.target = map[uint64]recTarget{}
	e.changedAt = map[uint64]time.Duration{}
	e.attempts = map[uint64]int{}
	e.k4 = map[uint64]bool{}
	e.delRev = map[uint64]uint64{}
	e.failStreak = map[uint64][]time.Duration{}
	e.minB, e.maxB = time.Duration(minB)*time.Millisecond, time.Duration(maxB)*time.Millisecond
	if e.tinyNs > 0 {
		e.minB, e.maxB = time.Duration(e.tinyNs), time.Duration(e.tinyNs)
	}
	e.roundSize, e.batch = roundSize, batch
	e.log = slog.New(slog.NewTextHandler(io.Discard, nil))
	ops := recOps{e}
	var bops reconciler.BatchOperations[*recObj]
	if batch {
		bops = ops
	}
	e.hive = hive.New(
		statedb.Cell,
		job.Cell,
		cell.Provide(
			cell.NewSimpleHealth,
			reconciler.NewExpVarMetrics,
			func(r job.Registry, h cell.Health) job.Group { return r.NewGroup(h) },
		),
		cell.Invoke(func(db *statedb.DB) (err error) {
			e.db = db
			e.side, err = statedb.NewTable(db, "rec-side", recIDIndex)
			if err != nil {
				return err
			}
			e.table, err = statedb.NewTable(db, "rec-objects", recIDIndex)
			if err == nil && e.withInit {
				// a table initializer that stays pending until the `initdone` op
				wtxn := db.WriteTxn(e.table)
				e.initDone = e.table.RegisterInitializer(wtxn, "slow-initializer")
				wtxn.Commit()
			}
			return err
		}),
		cell.Module("test", "test",
			cell.Invoke(func(params reconciler.Params) (err error) {
				e.rec, err = reconciler.Register(params, e.table,
					(*recObj).Clone, (*recObj).SetStatus, (*recObj).GetStatus,
					ops, bops,
					reconciler.WithPruning(e.refresh+e.refresh/2),
					reconciler.WithRefreshing(e.refresh, nil),
					reconciler.WithRetry(e.minB, e.maxB),
					reconciler.WithRoundLimits(roundSize, rate.NewLimiter(rate.Inf, 1)),
				)
				return err
			}),
		),
	)
	if err := e.hive.Start(e.log, context.Background()); err != nil {
		panic(err)
	}
}

func (e *recExec) put(id uint64, data int) {
	wtxn := e.db.WriteTxn(e.table)
	other := 0
	obj := &recObj{ID: id, Data: data, UseSet: e.useSet}
	if old, _, ok := e.table.Get(wtxn, recIDIndex.Query(id)); ok {
		other = old.Other
		obj.Set = old.Set.Pending()
	} else {
		obj.Set = reconciler.NewStatusSet()
	}
	obj.Other = other
	obj.Status = reconciler.StatusPending()
	e.table.Insert(wtxn, obj)
	rev := e.table.Revision(wtxn)
	// the reference is updated before the commit publishes the write (the
	// reconciler may react, and run injected writes, as soon as it is visible)
	e.mu.Lock()
	e.ref[id] = recRef{data: data, other: other, rev: rev}
	e.calls = append(e.calls, recCall{op: "change", id: id, at: e.since()})
	e.attempts[id] = 0
	delete(e.k4, id)
	delete(e.delRev, id)
	delete(e.raw, id)
	e.mu.Unlock()
	wtxn.Commit()
}

func refresherWaitsForLock() bool {
	buf := make([]byte, 1<<20)
	n := runtime.Stack(buf, true)
	for _, g := range strings.Split(string(buf[:n]), "\n\n") {
		if strings.Contains(g, "refreshLoop") && strings.Contains(g, "WriteTxn") {
			return true
		}
	}
	return false
}

func (e *recExec) heldWrite(id uint64, data int, del bool) {
	// no sleeping while the table lock is held (a goroutine blocked on a mutex keeps the bubble's
	// clock from advancing): run up to the instant the object is due for its refresh, then race the
	// refresher for the lock; when we win, let it run until it blocks on the lock, then write
	race := false
	if cur, _, ok := e.table.Get(e.db.ReadTxn(), recIDIndex.Query(id)); ok && e.refresh > 0 && cur.GetStatus().Kind == reconciler.StatusKindDone {
		if d := time.Until(cur.GetStatus().UpdatedAt.Add(e.refresh)); d > 0 {
			time.Sleep(d)
		}
		race = true
	}
	wtxn := e.db.WriteTxn(e.table)
	old, _, ok := e.table.Get(wtxn, recIDIndex.Query(id))
	if race {
		waits := false
		for i := 0; i < 400 && !waits; i++ {
			runtime.Gosched()
			if i%20 == 19 {
				waits = refresherWaitsForLock()
			}
		}
		if waits {
			e.o.Notes["user write committed while the refresher waited for the lock"]++
		}
	}
	e.mu.Lock()
	if del {
		if _, had, _ := e.table.Delete(wtxn, &recObj{ID: id}); had {
			e.delRev[id] = e.table.Revision(wtxn)
		}
		delete(e.ref, id)
	} else {
		obj := &recObj{ID: id, Data: data, UseSet: e.useSet, Status: reconciler.StatusPending()}
		other := 0
		if ok {
			other = old.Other
			obj.Set = old.Set.Pending()
		} else {
			obj.Set = reconciler.NewStatusSet()
		}
		obj.Other = other
		e.table.Insert(wtxn, obj)
		e.ref[id] = recRef{data: data, other: other, rev: e.table.Revision(wtxn)}
		delete(e.delRev, id)
	}
	e.calls = append(e.calls, recCall{op: "change", id: id, at: e.since()})
	e.attempts[id] = 0
	delete(e.k4, id)
	e.mu.Unlock()
	wtxn.Commit()
}

func (e *recExec) del(id uint64) {
	wtxn := e.db.WriteTxn(e.table)
	_, had, _ := e.table.Delete(wtxn, &recObj{ID: id})
	e.mu.Lock()
	if had {
		// (deleting an absent object changes nothing: the reconciler is not told anything)
		e.delRev[id] = e.table.Revision(wtxn)
		delete(e.ref, id)
		e.calls = append(e.calls, recCall{op: "change", id: id, at: e.since()})
		e.attempts[id] = 0
		delete(e.k4, id)
	}
	e.mu.Unlock()
	wtxn.Commit()
}

// sideGC: a deletion in the side table is observed by its iterator (that is what triggers a collection
// run), then virtual time passes so that the rate-limited collector completes its run
func (e *recExec) sideGC() {
	if e.sideIter == nil {
		w := e.db.WriteTxn(e.side)
		it, err := e.side.Changes(w)
		w.Commit()
		if err != nil {
			return
		}
		e.sideIter = it
	}
	w := e.db.WriteTxn(e.side)
	e.side.Insert(w, &recObj{ID: 1})
	w.Commit()
	w = e.db.WriteTxn(e.side)
	e.side.Delete(w, &recObj{ID: 1})
	w.Commit()
	seq, _ := e.sideIter.Next(e.db.ReadTxn())
	for range seq {
	}
	time.Sleep(2500 * time.Millisecond)
}

func (e *recExec) multi(specs []string) {
	wtxn := e.db.WriteTxn(e.table)
	e.mu.Lock()
	for _, sp := range specs {
		if len(sp) < 2 {
			continue
		}
		if sp[0] == 'd' {
			id, _ := strconv.ParseUint(sp[1:], 10, 64)
			e.mu.Unlock()
			_, had, _ := e.table.Delete(wtxn, &recObj{ID: id})
			e.mu.Lock()
			if had {
				e.delRev[id] = e.table.Revision(wtxn)
				delete(e.ref, id)
				e.calls = append(e.calls, recCall{op: "change", id: id, at: e.since()})
				e.attempts[id] = 0
				delete(e.k4, id)
			}
			continue
		}
		parts := strings.SplitN(sp[1:], ":", 2)
		id, _ := strconv.ParseUint(parts[0], 10, 64)
		data := 0
		if len(parts) > 1 {
			data, _ = strconv.Atoi(parts[1])
		}
		e.mu.Unlock()
		other := 0
		obj := &recObj{ID: id, Data: data, UseSet: e.useSet}
		if old, _, ok := e.table.Get(wtxn, recIDIndex.Query(id)); ok {
			other = old.Other
			obj.Set = old.Set.Pending()
		} else {
			obj.Set = reconciler.NewStatusSet()
		}
		obj.Other = other
		obj.Status = reconciler.StatusPending()
		e.table.Insert(wtxn, obj)
		rev := e.table.Revision(wtxn)
		e.mu.Lock()
		e.ref[id] = recRef{data: data, other: other, rev: rev}
		e.calls = append(e.calls, recCall{op: "change", id: id, at: e.since()})
		e.attempts[id] = 0
		delete(e.k4, id)
		delete(e.delRev, id)
	}
	e.mu.Unlock()
	wtxn.Commit()
}

func (e *recExec) touch(id uint64) {
	wtxn := e.db.WriteTxn(e.table)
	if old, _, ok := e.table.Get(wtxn, recIDIndex.Query(id)); ok {
		c := old.Clone()
		c.Other++
		if e.useSet {
			// the foreign writer is another reconciler: it reports its own status under its own name
			// (names sorting before and after this reconciler's "r"; up to five names per object)
			name := []string{"a", "z", "m", "s"}[c.Other%4]
			c.Set = c.Set.Set(name, reconciler.StatusDone())
		}
		e.table.Insert(wtxn, c)
		e.mu.Lock()
		if r, ok := e.ref[id]; ok {
			r.other = c.Other
			e.ref[id] = r
		}
		e.calls = append(e.calls, recCall{op: "change", id: id, at: e.since()})
		if old.GetStatus().Kind == reconciler.StatusKindError {
			// known finding K4: a foreign status-only write to an object that awaits a retry
			// (its status is Error): the retry's status commit compares against the stale revision
			e.k4[id] = true
		}
		e.mu.Unlock()
		wtxn.Commit()
		return
	}
	wtxn.Abort()
}

func (e *recExec) state() string {
	e.mu.Lock()
	newCalls := e.calls[e.printed:]
	e.printed = len(e.calls)
	var cs []string
	for _, c := range newCalls {
		if c.op == "change" {
			continue
		}
		cs = append(cs, fmt.Sprintf("%s%d:%d:%s", c.op, c.id, c.data, map[bool]string{true: "ok", false: "fail"}[c.ok]))
	}
	e.mu.Unlock()
	sort.Strings(cs)
	var objs []string
	for o := range e.table.All(e.db.ReadTxn()) {
		k := map[reconciler.StatusKind]string{reconciler.StatusKindPending: "P", reconciler.StatusKindRefreshing: "R", reconciler.StatusKindDone: "D", reconciler.StatusKindError: "E"}[o.GetStatus().Kind]
		objs = append(objs, fmt.Sprintf("%d:%d:%d:%s", o.ID, o.Data, o.Other, k))
	}
	ctx, cancel := context.WithCancel(context.Background())
	_, lw, _ := e.rec.WaitUntilReconciled(ctx, 0)
	cancel()
	// the exact value depends on the order in which commitStatus walks its result map (which
	// object of one round gets which status revision); only zero / non-zero is compared with the
	// model, the value is bounded from both sides by settleOracle
	lwc := "0"
	if lw != 0 {
		lwc = "+"
	}
	pr := ""
	if e.pruneObs {
		pr = fmt.Sprintf(" prunes=%d", e.pruneCalls.Load())
	}
	return fmt.Sprintf("calls=[%s] objs=[%s] lw=%s%s%s", strings.Join(cs, " "), strings.Join(objs, " "), lwc, e.waiterStates(), pr)
}

// settleOracle: the clauses of C15 / C16 that hold at every quiet point
func (e *recExec) settleOracle(o *Out) {
	rtx := e.db.ReadTxn()
	// committed object versions are immutable: a version read earlier still looks as it did
	// (status write-backs work on clones; they must not reach into older versions)
	for _, r := range e.retained {
		if now := reprObj(r.obj); now != r.repr {
			o.Fail("C15", "status-write-changed-an-older-version", map[string]string{"status_set": strconv.FormatBool(e.useSet)},
				fmt.Sprintf("object version read earlier at revision %d was [%s], now reads [%s]", r.rev, r.repr, now))
			r.repr = now
		}
	}
	for obj, rev := range e.table.All(rtx) {
		if len(e.retained) < 400 {
			e.retained = append(e.retained, retainedObj{obj, rev, reprObj(obj)})
		}
	}
	seen := map[uint64]bool{}
	e.mu.Lock()
	defer e.mu.Unlock()
	for obj := range e.table.All(rtx) {
		seen[obj.ID] = true
		ref, ok := e.ref[obj.ID]
		if !ok {
			o.Fail("C15", "deleted-object-recreated", nil, fmt.Sprintf("object %d is in the table although the user deleted it", obj.ID))
			continue
		}
		if obj.Data != ref.data || obj.Other != ref.other {
			o.Fail("C15", "status-write-changed-data", nil, fmt.Sprintf("object %d has data=%d other=%d, the user wrote data=%d other=%d", obj.ID, obj.Data, obj.Other, ref.data, ref.other))
		}
		if obj.GetStatus().Kind == reconciler.StatusKindPending && e.inUpdate == 0 {
			// a quiet point: every goroutine is blocked on a timer or a channel (synctest.Wait), the round
			// limiter is unlimited; nothing but a later write would make the loop look at this object again
			o.Fail("C14", "pending-object-while-idle", map[string]string{"batch": strconv.FormatBool(e.batch), "round_size": strconv.Itoa(e.roundSize)},
				fmt.Sprintf("object %d (data %d) is still Pending although the reconciler is idle: the loop went to sleep with changes left to deliver", obj.ID, obj.Data))
		}
		if obj.GetStatus().Kind == reconciler.StatusKindDone {
			t := e.target[obj.ID]
			if !t.present || t.data != obj.Data {
				o.Fail("C15", "done-for-a-version-never-updated", nil, fmt.Sprintf("object %d (data %d) is marked Done but the target holds %+v", obj.ID, obj.Data, t))
			}
		}
		if obj.GetStatus().Kind == reconciler.StatusKindError {
			// the last attempt for this version must have failed
			last := -1
			for i, c := range e.calls {
				if c.op == "U" && c.id == obj.ID && c.data == obj.Data {
					last = i
				}
			}
			if last < 0 || e.calls[last].ok {
				o.Fail("C15", "error-for-a-version-that-did-not-fail", map[string]string{"foreign_status_write_during_retry": strconv.FormatBool(e.k4[obj.ID])}, fmt.Sprintf("object %d (data %d) is marked Error without a failed Update of that version", obj.ID, obj.Data))
			}
		}
	}
	for id := range e.delRev {
		if _, live := e.ref[id]; live || !e.target[id].present || e.inUpdate != 0 {
			// (an Update that is still in flight — it may be sleeping in an injected step — is not idleness)
			continue
		}
		// deleted by the user, still in the target: a Delete must have been attempted (and failed) since
		lastChange, attempted := -1, false
		for i, c := range e.calls {
			if c.id != id {
				continue
			}
			if c.op == "change" {
				lastChange, attempted = i, false
			} else if c.op == "D" && i > lastChange {
				attempted = true
			}
		}
		if !attempted {
			o.Fail("C14", "deletion-not-delivered-while-idle", map[string]string{"batch": strconv.FormatBool(e.batch), "round_size": strconv.Itoa(e.roundSize)},
				fmt.Sprintf("object %d was deleted, the target still holds it and no Delete has been attempted although the reconciler is idle", id))
		}
	}
	for id := range e.ref {
		if !seen[id] {
			o.Fail("C15", "object-lost", nil, fmt.Sprintf("object %d written by the user is not in the table", id))
		}
	}
	// C16 low-watermark: never above the oldest change among the failed operations awaiting retry
	// (skipped while the K4 scenario is active: there a failed object silently leaves the queue)
	if len(e.k4) == 0 {
		bound, what := uint64(0), ""
		consider := func(rev uint64, w string) {
			if bound == 0 || rev < bound {
				bound, what = rev, w
			}
		}
		lastCall := func(op string, id uint64) (recCall, bool) {
			for i := len(e.calls) - 1; i >= 0; i-- {
				if e.calls[i].op == op && e.calls[i].id == id {
					return e.calls[i], true
				}
			}
			return recCall{}, false
		}
		for obj, rev := range e.table.All(rtx) {
			if obj.GetStatus().Kind == reconciler.StatusKindError {
				if c, ok := lastCall("U", obj.ID); ok && !c.ok && c.data == obj.Data {
					// the oldest failed CHANGE: the revision the FIRST failed attempt since the object last
					// changed (or succeeded) was made for; later retries of the same change do not move it
					r := rev
					for i := len(e.calls) - 1; i >= 0; i-- {
						ci := e.calls[i]
						if ci.id != obj.ID {
							continue
						}
						if ci.op == "change" || (ci.op == "U" && ci.ok) || ci.op == "D" {
							break
						}
						// (an attempt made for a version the user had already replaced when it ran is not an
						// attempt of this change: its result is dropped and queues nothing)
						if ci.op == "U" && !ci.ok && ci.rev > 0 && ci.rev < r && ci.data == obj.Data && !ci.stale {
							r = ci.rev
						}
					}
					consider(r, fmt.Sprintf("failed update of object %d (first failed attempt made for revision %d, object now at %d)", obj.ID, r, rev))
				}
			}
		}
		for id, dr := range e.delRev {
			if c, ok := lastCall("D", id); ok && !c.ok && e.target[id].present {
				consider(dr, fmt.Sprintf("failed delete of object %d (deleted at revision %d)", id, dr))
			}
		}
		if bound > 0 {
			ctx, cancel := context.WithCancel(context.Background())
			_, lw, _ := e.rec.WaitUntilReconciled(ctx, 0)
			cancel()
			if lw > bound {
				o.Fail("C16", "low-watermark-above-oldest-failed", nil, fmt.Sprintf("retry low-watermark is %d, above the %s", lw, what))
			}
			if lw == 0 {
				o.Fail("C16", "low-watermark-zero-with-failed-object", nil, fmt.Sprintf("retry low-watermark is 0 although a %s awaits retry", what))
			}
		}
	}
	// C16 low-watermark while rounds are in progress: a failed operation of an EARLIER instant that
	// has neither succeeded nor been superseded since awaits retry, so the watermark is not zero
	if len(e.k4) == 0 {
		for _, sm := range e.lwSamples {
			if sm.lw != 0 {
				continue
			}
			// per object: the latest call decides (a later attempt of either kind supersedes an
			// earlier failure; a change recorded BEFORE a stale retry ran does not keep it alive)
			awaiting := map[string]recCall{}
			for _, c := range e.calls[:sm.ncalls] {
				k := fmt.Sprintf("object %d", c.id)
				switch {
				case c.op == "change" || c.ok:
					delete(awaiting, k)
				case (c.at < sm.at || c.round < sm.round) && !c.stale:
					// (an earlier instant, or an earlier round of the same instant: its result was
					// committed and the progress published before the sampled round began)
					awaiting[k] = c
				default:
					delete(awaiting, k) // failed in the round that is still in progress
				}
			}

			for k, c := range awaiting {
				o.Fail("C16", "low-watermark-zero-with-failed-object", map[string]string{"sampled": "during-a-round"},
					fmt.Sprintf("WaitUntilReconciled reported low-watermark 0 at %v although %s failed at %v and has not succeeded or changed since; calls before the sample: %s", sm.at, k, c.at, tailCalls(e.calls[:sm.ncalls], 10)))
				break
			}
		}
	}
	e.lwSamples = nil
	// C16 pacing: consecutive failed attempts of one object with no change or success in between
	// (waits are measured from the moment the failed operation RETURNED: an operation may take
	// longer than the backoff)
	streak := map[string][]recCall{}
	for _, c := range e.calls {
		if c.op == "change" {
			for k := range streak {
				if strings.HasPrefix(k, fmt.Sprintf("U%d:", c.id)) || strings.HasPrefix(k, fmt.Sprintf("D%d:", c.id)) {
					delete(streak, k)
				}
			}
			continue
		}
		// attempts on different versions of an object are different operations (a change made
		// while an older version's retry is still queued starts over)
		key := fmt.Sprintf("%s%d:%d", c.op, c.id, c.data)
		if c.ok {
			delete(streak, key)
			continue
		}
		streak[key] = append(streak[key], c)
	}
	for key, cs := range streak {
		var prevGap time.Duration
		for i := 1; i < len(cs); i++ {
			from := cs[i-1].at
			feat := map[string]string(nil)
			if cs[i-1].end > from {
				from = cs[i-1].end
				feat = map[string]string{"measured_from": "return-of-a-slow-operation"}
			}
			gap := cs[i].at - from
			if gap < e.minB {
				o.Fail("C16", "retry-sooner-than-min-backoff", feat, fmt.Sprintf("%s retried %v after a failure (min backoff %v)", key, gap, e.minB))
			}
			if gap < prevGap {
				o.Fail("C16", "retry-wait-shrank", feat, fmt.Sprintf("%s: wait %v after a wait of %v without a change or success in between", key, gap, prevGap))
			}
			prevGap = gap
		}
	}
}

// tinybackoff <ns> <n>: REAL time (outside the synctest bubble). A reconciler whose retry backoff is
// a few nanoseconds: the retry queued by the first status commit of a round is already due when the
// same round looks at the retry queue, so it is processed against the round's OLD snapshot. n objects
// each fail once and then succeed; within ten seconds every object must be Done in the target.
func (e *recExec) tinyBackoff(o *Out, ns, n int) string {
	e.tinyNs = ns
	e.failOnce = map[uint64]bool{}
	e.setup(1, 1, 1000, false)
	for id := uint64(1); id <= uint64(n); id++ {
		e.mu.Lock()
		e.failOnce[id] = true
		e.mu.Unlock()
		e.put(id, int(10+id))
		time.Sleep(2 * time.Millisecond)
	}
	deadline := time.Now().Add(10 * time.Second)
	for {
		done := 0
		txn := e.db.ReadTxn()
		for obj := range e.table.All(txn) {
			e.mu.Lock()
			t := e.target[obj.ID]
			e.mu.Unlock()
			if obj.GetStatus().Kind == reconciler.StatusKindDone && t.present && t.data == obj.Data {
				done++
			}
		}
		if done == n {
			return "converged"
		}
		if time.Now().After(deadline) {
			var st []string
			for obj := range e.table.All(txn) {
				st = append(st, fmt.Sprintf("%d:%s", obj.ID, obj.GetStatus().Kind))
			}
			o.Fail("C14", "not-converged", map[string]string{"tiny_backoff": "true"},
				fmt.Sprintf("retry backoff %dns, %d objects that each fail once: ten seconds after the last write the statuses are [%s], the target holds %d of them: a failed object was forgotten", ns, n, strings.Join(st, " "), done))
			return "not-converged"
		}
		time.Sleep(5 * time.Millisecond)
	}
}

func (e *recExec) Do(o *Out, f []string) string {
	e.o = o
	if f[0] == "tinybackoff" && len(f) == 3 && e.db == nil {
		ns, _ := strconv.Atoi(f[1])
		n, _ := strconv.Atoi(f[2])
		return e.tinyBackoff(o, ns, n)
	}
	if e.db == nil && f[0] != "cfg" {
		return "bad-op" // only in shrunk sequences: nothing is set up yet
	}
	switch f[0] {
	case "cfg":
		minB, _ := strconv.Atoi(f[1])
		maxB, _ := strconv.Atoi(f[2])
		rs, _ := strconv.Atoi(f[3])
		e.oracleOnly = !strings.HasPrefix(f[4], "exact")
		e.useSet = strings.Contains(f[4], "set")
		if strings.Contains(f[4], "-refresh") {
			e.refresh = 700 * time.Millisecond
		}
		e.withInit = strings.Contains(f[4], "-init")
		e.pruneObs = strings.Contains(f[4], "-xprune")
		e.setup(minB, maxB, rs, strings.Contains(f[4], "-batch"))
	case "put":
		id, _ := strconv.ParseUint(f[1], 10, 64)
		d, _ := strconv.Atoi(f[2])
		e.put(id, d)
	case "del":
		id, _ := strconv.ParseUint(f[1], 10, 64)
		e.del(id)
	case "touch":
		id, _ := strconv.ParseUint(f[1], 10, 64)
		e.touch(id)
	case "putraw":
		// an object written WITHOUT a reconciliation request (zero status): the reconciler leaves it alone
		id, _ := strconv.ParseUint(f[1], 10, 64)
		d, _ := strconv.Atoi(f[2])
		wtxn := e.db.WriteTxn(e.table)
		e.table.Insert(wtxn, &recObj{ID: id, Data: d})
		e.mu.Lock()
		e.ref[id] = recRef{data: d, other: 0, rev: e.table.Revision(wtxn)}
		e.raw[id] = true
		e.calls = append(e.calls, recCall{op: "change", id: id, at: e.since()})
		e.attempts[id] = 0
		delete(e.delRev, id)
		e.mu.Unlock()
		wtxn.Commit()
	case "multi":
		// several user writes in ONE write transaction: "d<id>" deletes, "p<id>:<data>" puts
		e.multi(strings.Split(f[1], ","))
	case "extprune":
		// Reconciler.Prune(): an external request for a prune round
		e.rec.Prune()
	case "initdone":
		if e.initDone != nil {
			wtxn := e.db.WriteTxn(e.table)
			e.initDone(wtxn)
			wtxn.Commit()
			e.initDone = nil
		}
	case "putheld", "delheld":
		// a user write that lands while the refresher is waiting for the table lock: the
		// transaction is opened first, time runs up to the instant the object is due for a
		// refresh, the refresher is let run until it blocks on the lock, then the write commits
		id, _ := strconv.ParseUint(f[1], 10, 64)
		d := 0
		if len(f) > 2 {
			d, _ = strconv.Atoi(f[2])
		}
		e.heldWrite(id, d, f[0] == "delheld")
	case "fail":
		id, _ := strconv.ParseUint(f[1], 10, 64)
		e.mu.Lock()
		e.failing[id] = f[2] == "1"
		e.mu.Unlock()
	case "inject":
		id, _ := strconv.ParseUint(f[1], 10, 64)
		tid, _ := strconv.ParseUint(f[3], 10, 64)
		d, _ := strconv.Atoi(f[4])
		var fn func()
		switch f[2] {
		case "put":
			fn = func() { e.put(tid, d) }
		case "del":
			fn = func() { e.del(tid) }
		case "gc":
			// while the Update is in flight: the user deletes object tid, and ANOTHER change iterator
			// (on an unrelated table) observes a deletion, which makes the collector run
			fn = func() {
				e.del(tid)
				e.sideGC()
			}
		case "sleep":
			// the operation takes d milliseconds (of virtual time) before it returns
			fn = func() { time.Sleep(time.Duration(d) * time.Millisecond) }
		default:
			fn = func() { e.touch(tid) }
		}
		e.mu.Lock()
		e.injects[id] = append(e.injects[id], fn)
		e.mu.Unlock()
	case "advance":
		ms, _ := strconv.Atoi(f[1])
		time.Sleep(time.Duration(ms) * time.Millisecond)
	case "waiter":
		// a goroutine calls WaitUntilReconciled(ctx, table revision now + k) and stays in it
		k, _ := strconv.Atoi(f[1])
		if e.waiterCtx == nil {
			e.waiterCtx, e.waiterCancel = context.WithCancel(context.Background())
		}
		w := &recWaiter{target: uint64(e.table.Revision(e.db.ReadTxn())) + uint64(k)}
		e.waiters = append(e.waiters, w)
		ctx := e.waiterCtx
		go func() {
			rev, lw, err := e.rec.WaitUntilReconciled(ctx, statedb.Revision(w.target))
			w.rev, w.lw, w.err = uint64(rev), uint64(lw), err
			w.returned.Store(true)
		}()
	case "obs":
	case "final":
		synctest.Wait()
		// an Update still in flight (sleeping in an injected step) is let finish, then the quiet
		// period of the convergence clause starts over
		for k := 0; k < 20; k++ {
			e.mu.Lock()
			busy := e.inUpdate != 0
			e.mu.Unlock()
			if !busy {
				break
			}
			time.Sleep(time.Second)
			synctest.Wait()
			time.Sleep(4*e.maxB + time.Millisecond)
			synctest.Wait()
		}
		e.finalOracle(o)
		return "-"
	default:
		return "bad-op"
	}
	synctest.Wait()
	e.settleOracle(o)
	e.waiterOracle(o)
	if e.oracleOnly {
		e.mu.Lock()
		e.printed = len(e.calls)
		e.mu.Unlock()
		return "-"
	}
	return e.state()
}

// waiterOracle (C16): a call of WaitUntilReconciled(ctx, target) has returned exactly when the
// published progress revision has reached its target — not earlier, and it is not left asleep;
// what it returned is at least the target, without an error
func (e *recExec) waiterOracle(o *Out) {
	if len(e.waiters) == 0 || e.rec == nil {
		return
	}
	ctx, cancel := context.WithCancel(context.Background())
	cur, _, _ := e.rec.WaitUntilReconciled(ctx, 0)
	cancel()
	for _, w := range e.waiters {
		if w.returned.Load() {
			if w.err != nil || w.rev < w.target {
				o.Fail("C16", "wait-returned-before-the-target", nil, fmt.Sprintf("WaitUntilReconciled(ctx, %d) returned (%d, %d, %v)", w.target, w.rev, w.lw, w.err))
			}
		} else if uint64(cur) >= w.target {
			o.Fail("C16", "waiter-not-woken", nil, fmt.Sprintf("WaitUntilReconciled(ctx, %d) is still waiting although the published revision is %d", w.target, cur))
		}
	}
}

func (e *recExec) waiterStates() string {
	if len(e.waiters) == 0 {
		return ""
	}
	var parts []string
	for _, w := range e.waiters {
		if w.returned.Load() {
			parts = append(parts, "ret")
		} else {
			parts = append(parts, "wait")
		}
	}
	return " waiters=" + strings.Join(parts, ",")
}

// finalOracle: C14 — failures stopped, table quiet for more than two maximal
// backoffs: target == table, every status Done, nothing awaiting retry
func (e *recExec) finalOracle(o *Out) {
	rtx := e.db.ReadTxn()
	e.mu.Lock()
	defer e.mu.Unlock()
	feat := map[string]string{"batch": strconv.FormatBool(e.batch), "round_size_one": strconv.FormatBool(e.roundSize == 1)}
	touched := false
	for _, c := range e.calls {
		_ = c
	}
	for obj := range e.table.All(rtx) {
		t := e.target[obj.ID]
		if e.raw[obj.ID] {
			if st := obj.GetStatus(); st.Kind == reconciler.StatusKindDone || st.Kind == reconciler.StatusKindError {
				o.Fail("C15", "status-written-for-an-object-never-requested", nil, fmt.Sprintf("object %d was written without a reconciliation request and now carries status %s", obj.ID, st.Kind))
			}
			continue
		}
		if obj.GetStatus().Kind != reconciler.StatusKindDone || !t.present || t.data != obj.Data {
			ff := map[string]string{}
			for k, v := range feat {
				ff[k] = v
			}
			ff["status"] = obj.GetStatus().Kind.String()
			ff["foreign_status_write_during_retry"] = strconv.FormatBool(e.k4[obj.ID])
			o.Fail("C14", "not-converged", ff, fmt.Sprintf("after failures stopped and %v of quiet time object %d (data %d) has status %s and the target holds %+v", 4*e.maxB, obj.ID, obj.Data, obj.GetStatus().Kind, t))
		}
	}
	_ = touched
	for id, t := range e.target {
		if _, live := e.ref[id]; !live && t.present {
			o.Fail("C14", "removed-object-left-in-target", feat, fmt.Sprintf("object %d was removed from the table but the target still holds it (data %d)", id, t.data))
		}
	}
	ctx, cancel := context.WithCancel(context.Background())
	_, lw, _ := e.rec.WaitUntilReconciled(ctx, 0)
	cancel()
	if lw != 0 {
		feat["foreign_status_write_during_retry"] = strconv.FormatBool(len(e.k4) > 0)
		o.Fail("C16", "low-watermark-nonzero-when-idle", feat, fmt.Sprintf("retry low-watermark is %d although every object is reconciled or gone", lw))
	}
}
