package main

import (
	"context"
	"fmt"
	"sort"
	"strconv"
	"strings"
	"sync"
	"time"

	"github.com/cilium/statedb"
)

func init() {
	suites["ws"] = SuiteDef{Gen: genWS, NewExec: func(h string) Exec { return newWSExec() }, Synctest: true}
}

// genWS (C20): sequences of Add / Clear / Merge / Wait on one WatchSet under
// virtual time; channels closed before or during the waits at distinct
// instants (ties at the same instant are avoided: select order is not
// observable); settle time 0 or positive; context deadline before, inside or
// after the settle window or absent.
func genWS(cfg Config, emit func(string, bool, []string)) {
	n := 400
	if cfg.Thorough() {
		n = 5000
	}
	for c := 0; c < n; c++ {
		r := newRand(cfg.Seed, uint64(2000+c))
		var ops []string
		add := func(f string, a ...any) { ops = append(ops, fmt.Sprintf(f, a...)) }
		nch := 2 + r.IntN(7)
		if c%100 == 57 {
			// two goroutines waiting on ONE set at the same time (real time, outside the bubble: a
			// goroutine blocked on the set's mutex is not durably blocked)
			add("twowait %d %d", 64+r.IntN(96), 3)
			emit("ws realtime two-waiters", true, ops)
			continue
		}
		if c%25 == 13 {
			// a Wait that ends by its context with nothing closed, then Clear, then the set is refilled
			// with the SAME number of other channels, one of which closes
			k := 1 + r.IntN(3)
			nch = 2*k + 1
			add("chans %d", nch)
			var first, second []string
			for i := 0; i < k; i++ {
				first = append(first, strconv.Itoa(i))
				second = append(second, strconv.Itoa(k+i))
			}
			add("add %s", strings.Join(first, ","))
			add("wait %d %d", []int{0, 50}[r.IntN(2)], 30+r.IntN(40))
			add("hasall")
			add("clear")
			add("add %s", strings.Join(second, ","))
			add("hasall")
			if r.IntN(2) == 0 {
				add("close 0") // a channel that was cleared out closes: not a member any more
			}
			add("closeat %d %d", k, 150+r.IntN(50))
			add("wait %d %d", []int{0, 50}[r.IntN(2)], 400+r.IntN(50))
			add("hasall")
			emit("ws clear-and-refill", true, ops)
			continue
		}
		if c%25 == 7 {
			// an idle Wait (it ends by its context, nothing closed), then the set changes ONLY through
			// Merge (no Add, no Clear), one of the merged channels closes: the next Wait returns it
			k := 1 + r.IntN(3)
			nch = k + 3
			add("chans %d", nch)
			var first []string
			for i := 0; i < k; i++ {
				first = append(first, strconv.Itoa(i))
			}
			add("add %s", strings.Join(first, ","))
			add("wait %d %d", []int{0, 50}[r.IntN(2)], 30+r.IntN(40))
			add("hasall")
			if r.IntN(2) == 0 {
				add("wait 0 %d", 100+r.IntN(20)) // a second idle Wait over the unchanged set
			}
			add("merge %s", []string{fmt.Sprintf("%d", k), fmt.Sprintf("%d,%d", k, k+1), fmt.Sprintf("%d,%d,%d", k, k+1, k+2)}[r.IntN(3)])
			add("hasall")
			add("closeat %d %d", k, 200+r.IntN(50))
			add("wait %d %d", []int{0, 50}[r.IntN(2)], 600+r.IntN(50))
			add("hasall")
			add("merge %d", k)
			add("closeat 0 %d", 700+r.IntN(20))
			add("wait 0 %d", 900+r.IntN(50))
			add("hasall")
			emit("ws idle-wait-then-merge", true, ops)
			continue
		}
		if c%5 == 4 {
			// a channel that was returned (and removed) is added again after a Merge restored the set's
			// size: the second Add must take effect
			nch = 4
			add("chans %d", nch)
			add("add 1")
			add("add 0")
			add("closeat 0 %d", 20+r.IntN(30))
			add("wait 0 -")
			add("merge %s", []string{"2", "2,3"}[r.IntN(2)])
			if r.IntN(2) == 0 {
				add("add 0")
			} else {
				add("add 3,0")
			}
			add("hasall")
			add("wait %d %d", []int{0, 50}[r.IntN(2)], 400+r.IntN(50))
			add("hasall")
			emit("ws readd", true, ops)
			continue
		}
		add("chans %d", nch)
		now := 0               // virtual ms
		used := map[int]bool{} // instants already used by some event (avoid ties)
		closeTime := map[int]int{}
		inSet := map[int]bool{}
		pick := func(lo, hi int) int {
			for i := 0; i < 50; i++ {
				t := lo + r.IntN(hi-lo+1)
				if !used[t] {
					used[t] = true
					return t
				}
			}
			t := hi + 1
			for used[t] {
				t++
			}
			used[t] = true
			return t
		}
		for round := 0; round < 1+r.IntN(4); round++ {
			// add some channels
			var adds []string
			for i := 0; i < nch; i++ {
				if r.IntN(2) == 0 {
					adds = append(adds, strconv.Itoa(i))
					inSet[i] = true
				}
			}
			if len(adds) > 0 {
				add("add %s", strings.Join(adds, ","))
			}
			// WatchSet.Merge: another set (smaller, equal or larger, overlapping or not) merged in
			if r.IntN(3) == 0 {
				var ms []string
				for i := 0; i < nch; i++ {
					if r.IntN(2) == 0 {
						ms = append(ms, strconv.Itoa(i))
						inSet[i] = true
					}
				}
				if len(ms) > 0 {
					add("merge %s", strings.Join(ms, ","))
				}
			}
			if r.IntN(8) == 0 {
				add("clear")
				inSet = map[int]bool{}
				continue
			}
			// schedule closes (members and non-members), relative to now
			for i := 0; i < nch; i++ {
				if _, done := closeTime[i]; !done && r.IntN(3) != 0 {
					var t int
					if r.IntN(4) == 0 {
						t = now // closed before the wait starts (applied immediately)
						add("close %d", i)
					} else {
						t = pick(now+1, now+400)
						add("closeat %d %d", i, t)
					}
					closeTime[i] = t
				}
			}
			// HasAny over an arbitrary list (also the empty one) leaves the set usable
			if r.IntN(3) == 0 {
				var hs []string
				for i := 0; i < nch; i++ {
					if r.IntN(4) == 0 {
						hs = append(hs, strconv.Itoa(i))
					}
				}
				if len(hs) == 0 || r.IntN(4) == 0 {
					add("hasany -")
				} else {
					add("hasany %s", strings.Join(hs, ","))
				}
			}
			settle := []int{0, 0, 50, 100, 250}[r.IntN(5)]
			// a wait must terminate: give a context deadline unless some member surely closes
			ctx := -1
			memberCloses := false
			readyNow := 0
			for i := range inSet {
				if t, ok := closeTime[i]; ok {
					memberCloses = true
					if t <= now {
						readyNow++
					}
				}
			}
			if settle == 0 && readyNow > 1 {
				settle = 50 // several members already closed and no settle: the pick is a coin toss
			}
			if !memberCloses || r.IntN(3) == 0 {
				ctx = pick(now+1, now+600)
				if readyNow > 0 && ctx <= now {
					ctx = pick(now+1, now+600)
				}
			}
			// avoid ties with the settle deadline: the first wake time + settle must be a free instant
			first := -1
			for i := range inSet {
				if t, ok := closeTime[i]; ok {
					tt := max(t, now)
					if first < 0 || tt < first {
						first = tt
					}
				}
			}
			if first >= 0 && settle > 0 {
				for used[first+settle] {
					settle++
				}
				used[first+settle] = true
			}
			if ctx >= 0 {
				add("wait %d %d", settle, ctx)
			} else {
				add("wait %d -", settle)
			}
			// bookkeeping of `now` and of the set is done by the executor / model; the
			// generator only needs a lower bound for scheduling later events
			end := now
			if first >= 0 {
				end = first + settle
			}
			if ctx >= 0 && (first < 0 || ctx < end) {
				end = ctx
			}
			now = end
			for i := range inSet {
				if t, ok := closeTime[i]; ok && t <= now {
					delete(inSet, i)
				}
			}
			add("hasall")
		}
		emit("ws", true, ops)
	}
}

type wsExec struct {
	ws       *statedb.WatchSet
	chans    []chan struct{}
	start    time.Time
	member   map[int]bool
	closed   map[int]bool
	closedAt map[int]int
	timers   []*time.Timer
	mu       sync.Mutex
}

func newWSExec() *wsExec {
	return &wsExec{ws: statedb.NewWatchSet(), start: time.Now(), member: map[int]bool{}, closed: map[int]bool{}, closedAt: map[int]int{}}
}

func (e *wsExec) Close() {
	for _, t := range e.timers {
		t.Stop()
	}
}

func (e *wsExec) nowMs() int { return int(time.Since(e.start) / time.Millisecond) }

func (e *wsExec) Do(o *Out, f []string) string {
	switch f[0] {
	case "chans":
		n, _ := strconv.Atoi(f[1])
		for i := 0; i < n; i++ {
			e.chans = append(e.chans, make(chan struct{}))
		}
		return "ok"
	case "add":
		var cs []<-chan struct{}
		for _, i := range parseInts(f[1]) {
			cs = append(cs, e.chans[i])
			e.member[i] = true
		}
		e.ws.Add(cs...)
		return "ok"
	case "merge":
		other := statedb.NewWatchSet()
		var cs []<-chan struct{}
		for _, i := range parseInts(f[1]) {
			cs = append(cs, e.chans[i])
			e.member[i] = true
		}
		other.Add(cs...)
		e.ws.Merge(other)
		for _, i := range parseInts(f[1]) {
			if !other.Has(e.chans[i]) {
				o.Fail("C20", "merge-changed-the-source-set", nil, fmt.Sprintf("after Merge the source set lost channel %d", i))
			}
		}
		return "ok"
	case "clear":
		e.ws.Clear()
		e.member = map[int]bool{}
		return "ok"
	case "close":
		i, _ := strconv.Atoi(f[1])
		e.mu.Lock()
		if !e.closed[i] {
			close(e.chans[i])
			e.closed[i] = true
			e.closedAt[i] = e.nowMs()
		}
		e.mu.Unlock()
		return "ok"
	case "closeat":
		i, _ := strconv.Atoi(f[1])
		at, _ := strconv.Atoi(f[2])
		d := time.Duration(at-e.nowMs()) * time.Millisecond
		e.timers = append(e.timers, time.AfterFunc(d, func() {
			e.mu.Lock()
			if !e.closed[i] {
				e.closed[i] = true
				e.closedAt[i] = e.nowMs()
				close(e.chans[i])
			}
			e.mu.Unlock()
		}))
		return "ok"
	case "wait":
		settle, _ := strconv.Atoi(f[1])
		ctx := context.Background()
		cancel := func() {}
		if f[2] != "-" {
			at, _ := strconv.Atoi(f[2])
			ctx, cancel = context.WithTimeout(ctx, time.Duration(at-e.nowMs())*time.Millisecond)
		}
		t0 := e.nowMs()
		before := map[int]bool{}
		for i := range e.member {
			before[i] = true
		}
		firstClosed := -1
		e.mu.Lock()
		for i := range before {
			if e.closed[i] {
				firstClosed = t0
			}
		}
		e.mu.Unlock()
		got, err := e.ws.Wait(ctx, time.Duration(settle)*time.Millisecond)
		cancel()
		t1 := e.nowMs()
		e.mu.Lock()
		defer e.mu.Unlock()
		idx := map[<-chan struct{}]int{}
		for i, c := range e.chans {
			idx[c] = i
		}
		var names []int
		for _, c := range got {
			i, ok := idx[c]
			if !ok {
				o.Fail("C20", "returned-unknown-channel", nil, "Wait returned a channel that was never added")
				continue
			}
			names = append(names, i)
			if !before[i] {
				o.Fail("C20", "returned-non-member", map[string]string{"settle": strconv.FormatBool(settle > 0)}, fmt.Sprintf("Wait returned channel %d which is not in the set", i))
			}
			if !e.closed[i] {
				o.Fail("C20", "returned-open-channel", nil, fmt.Sprintf("Wait returned channel %d which is not closed", i))
			}
			delete(e.member, i)
		}
		sort.Ints(names)
		if len(got) == 0 && err == nil {
			o.Fail("C20", "empty-result-without-error", nil, "Wait returned no channel and no error")
		}
		if len(got) == 0 && err != nil && ctx.Err() == nil {
			o.Fail("C20", "error-without-context-end", nil, "Wait returned an error although the context has not ended")
		}
		if err != nil && err != ctx.Err() {
			o.Fail("C20", "wrong-error", nil, fmt.Sprintf("Wait returned %v, context error is %v", err, ctx.Err()))
		}
		// "waiting at most the settle time to gather further ones": a successful Wait returns no
		// later than the settle time after the first member closed
		if err == nil && len(got) > 0 {
			firstClosed = -1
			for i := range before {
				if e.closed[i] {
					at := e.closedAt[i]
					if at < t0 {
						at = t0
					}
					if firstClosed < 0 || at < firstClosed {
						firstClosed = at
					}
				}
			}
			if firstClosed >= 0 && t1 > firstClosed+settle {
				o.Fail("C20", "waited-longer-than-settle", map[string]string{"settle": strconv.FormatBool(settle > 0)},
					fmt.Sprintf("Wait(settle %dms) called at %dms returned at %dms; the first member closed at %dms", settle, t0, t1, firstClosed))
			}
		}
		// the set afterwards: exactly the members that were not returned
		for i, c := range e.chans {
			has := e.ws.Has(c)
			if has != e.member[i] {
				kind := "returned-but-kept"
				if !has {
					kind = "not-returned-but-removed"
				}
				o.Fail("C20", kind, map[string]string{"settle": strconv.FormatBool(settle > 0)}, fmt.Sprintf("after Wait: Has(channel %d)=%v, expected %v (returned %v)", i, has, e.member[i], names))
				e.member[i] = has
			}
		}
		// gathering: with a settle time, every member closed strictly inside the window must be returned
		if settle > 0 && len(got) > 0 {
			for i := range before {
				if e.closed[i] && e.member[i] {
					o.Notes["member closed at the very end of the settle window kept"]++
				}
			}
		}
		res := "."
		if len(names) > 0 {
			p := make([]string, len(names))
			for i, n := range names {
				p[i] = strconv.Itoa(n)
			}
			res = strings.Join(p, ",")
		}
		return fmt.Sprintf("%s err=%v t=%d", res, err != nil, t1)
	case "twowait":
		n, _ := strconv.Atoi(f[1])
		rounds, _ := strconv.Atoi(f[2])
		for round := 0; round < rounds; round++ {
			ws := statedb.NewWatchSet()
			chans := make([]chan struct{}, n)
			for i := range chans {
				chans[i] = make(chan struct{})
				ws.Add(chans[i])
			}
			idx := map[<-chan struct{}]int{}
			for i, c := range chans {
				idx[c] = i
			}
			type res struct {
				got []<-chan struct{}
				err error
			}
			results := make(chan res, 2)
			for w := 0; w < 2; w++ {
				go func() {
					got, err := ws.Wait(context.Background(), 0)
					results <- res{got, err}
				}()
			}
			time.Sleep(120 * time.Millisecond)
			closed := map[int]bool{}
			var returned []int
			// (no other method of the set is called while a waiter may be inside Wait: it holds the
			// set's mutex for as long as it waits)
			for step := 0; step < 2; step++ {
				k := (7*round + 31*step + 3) % n
				for closed[k] {
					k = (k + 1) % n
				}
				close(chans[k])
				closed[k] = true
				var rr res
				select {
				case rr = <-results:
				case <-time.After(10 * time.Second):
					o.Fail("C20", "wait-does-not-return", map[string]string{"waiters": "2"}, fmt.Sprintf("round %d: member %d closed but neither of two concurrent Wait calls returned within 10s", round, k))
					return "stuck"
				}
				if rr.err != nil {
					o.Fail("C20", "unexpected-error", map[string]string{"waiters": "2"}, fmt.Sprintf("round %d: Wait returned error %v without a context ending", round, rr.err))
				}
				for _, c := range rr.got {
					i, member := idx[c]
					if !member {
						o.Fail("C20", "returned-non-member", map[string]string{"waiters": "2"}, fmt.Sprintf("round %d: Wait returned a channel that was never added", round))
						continue
					}
					if !closed[i] {
						o.Fail("C20", "returned-open-channel", map[string]string{"waiters": "2"}, fmt.Sprintf("round %d: with two goroutines waiting on one set, Wait returned member #%d which is NOT closed (closed members: %v)", round, i, keysInt(closed)))
					}
					returned = append(returned, i)
				}
				if len(rr.got) == 0 && rr.err == nil {
					o.Fail("C20", "empty-result-without-error", map[string]string{"waiters": "2"}, fmt.Sprintf("round %d: Wait returned no channel and no error", round))
				}
			}
			for _, i := range returned {
				if ws.Has(chans[i]) {
					o.Fail("C20", "returned-channel-still-in-set", map[string]string{"waiters": "2"}, fmt.Sprintf("round %d: returned member #%d is still in the set", round, i))
				}
			}
			for i, c := range chans {
				if !closed[i] && !ws.Has(c) {
					o.Fail("C20", "open-member-dropped", map[string]string{"waiters": "2"}, fmt.Sprintf("round %d: member #%d was neither closed nor returned but is no longer in the set", round, i))
				}
			}
		}
		return "ok"
	case "hasany":
		var cs []<-chan struct{}
		want := false
		if f[1] != "-" {
			for _, i := range parseInts(f[1]) {
				cs = append(cs, e.chans[i])
				want = want || e.member[i]
			}
		}
		got := e.ws.HasAny(cs)
		if got != want {
			o.Fail("C20", "membership-after-add-merge-clear", map[string]string{"op": "HasAny"}, fmt.Sprintf("HasAny(%s)=%v, want %v", f[1], got, want))
		}
		return strconv.FormatBool(got)
	case "hasall":
		var p []string
		for i, c := range e.chans {
			has := e.ws.Has(c)
			if has {
				p = append(p, strconv.Itoa(i))
			}
			if has != e.member[i] {
				o.Fail("C20", "membership-after-add-merge-clear", nil, fmt.Sprintf("Has(channel %d)=%v, but the channel was %s", i, has, map[bool]string{true: "added (or merged in) and not returned since", false: "never added, or returned / cleared since"}[e.member[i]]))
				e.member[i] = has
			}
		}
		if len(p) == 0 {
			return "."
		}
		return strings.Join(p, ",")
	}
	return "bad-op"
}

func keysInt(m map[int]bool) []int {
	var out []int
	for k := range m {
		out = append(out, k)
	}
	sort.Ints(out)
	return out
}
