package main

import (
	"bufio"
	"flag"
	"fmt"
	"os"
	"sort"
	"strings"
	"sync/atomic"
	"time"
)

// harness <suite> -seed N -tier quick|thorough -out ops.txt -stats stats.json
//
//	[-replay file]   re-execute the case(s) in file (op lines) instead of generating
//	[-shrink file]   ddmin the ops of the (single) case in file while the oracle
//	                 keeps failing with -kind; result written to -out
func main() { runMain(os.Args[1:]) }

// bubble, when set (test binary), runs a function inside a testing/synctest bubble
var bubble func(f func())

// progress is bumped after every executed op; a watchdog outside any synctest
// bubble aborts the run when the implementation under test hangs or livelocks.
var progress atomic.Int64

func startWatchdog() {
	go func() {
		last, idle := int64(-1), 0
		for {
			time.Sleep(time.Second)
			cur := progress.Load()
			if cur == last {
				idle++
			} else {
				last, idle = cur, 0
			}
			if idle >= 45 {
				fmt.Fprintln(os.Stderr, "harness: no progress for 45s (hang or livelock in the code under test); aborting")
				os.Exit(3)
			}
		}
	}()
}

func runMain(args []string) {
	startWatchdog()
	if len(args) < 1 {
		fmt.Fprintln(os.Stderr, "usage: harness <suite> [flags]")
		os.Exit(2)
	}
	suite := args[0]
	fs := flag.NewFlagSet(suite, flag.ExitOnError)
	seed := fs.Uint64("seed", 1, "PRNG seed")
	tier := fs.String("tier", "quick", "quick|thorough")
	out := fs.String("out", "ops.txt", "ops/obs output file")
	stats := fs.String("stats", "stats.json", "stats output file")
	replay := fs.String("replay", "", "replay ops from this file instead of generating")
	shrink := fs.String("shrink", "", "shrink the failing case in this file")
	kind := fs.String("kind", "", "failure kind to preserve while shrinking")
	prop := fs.String("prop", "", "property of the failure to preserve while shrinking")
	feat := fs.String("feat", "", "features (k=v,k=v) of the failure to preserve while shrinking")
	shard := fs.Int("shard", 0, "shard index")
	nshards := fs.Int("nshards", 1, "number of shards")
	fs.Parse(args[1:])

	def, ok := suites[suite]
	if !ok {
		fmt.Fprintln(os.Stderr, "unknown suite", suite)
		os.Exit(2)
	}
	cfg := Config{Seed: *seed, Tier: *tier, Shard: *shard, NShards: *nshards}

	if *shrink != "" {
		cases := readCases(*shrink)
		if len(cases) == 0 {
			fmt.Fprintln(os.Stderr, "no case in", *shrink)
			os.Exit(2)
		}
		c := cases[len(cases)-1]
		c.ops = shrinkOps(def, c, *kind, *prop, *feat)
		o := NewOut(*out, suite, *seed, *tier)
		runCase(o, def, c)
		o.Close(*stats)
		return
	}

	o := NewOut(*out, suite, *seed, *tier)
	if *replay != "" {
		for _, c := range readCases(*replay) {
			runCase(o, def, c)
		}
	} else {
		n := 0
		def.Gen(cfg, func(header string, nontrivial bool, ops []string) {
			n++
			if cfg.NShards > 1 && n%cfg.NShards != cfg.Shard {
				return
			}
			runCase(o, def, genCase{header: header, nontrivial: nontrivial, ops: ops})
		})
	}
	o.Close(*stats)
}

type genCase struct {
	header     string
	nontrivial bool
	ops        []string
}

// Exec executes op lines on the real implementation and returns the
// canonical observation; it evaluates the property oracle as it goes.
type Exec interface {
	Do(o *Out, op []string) string
	Close()
}

type SuiteDef struct {
	Gen      func(cfg Config, emit func(header string, nontrivial bool, ops []string))
	NewExec  func(header string) Exec
	Synctest bool // every case runs inside a testing/synctest bubble (virtual time)
}

func runCase(o *Out, def SuiteDef, c genCase) {
	if def.Synctest && !strings.Contains(c.header, "realtime") {
		if bubble == nil {
			fmt.Fprintln(os.Stderr, "this suite needs the test binary (go test -c): testing/synctest")
			os.Exit(2)
		}
		bubble(func() { runCase1(o, def, c) })
		return
	}
	runCase1(o, def, c)
}

func runCase1(o *Out, def SuiteDef, c genCase) {
	o.Case(c.header)
	if c.nontrivial {
		o.NonTrivial()
	}
	ex := def.NewExec(c.header)
	defer ex.Close()
	for _, op := range c.ops {
		o.Op("%s", op)
		obs := safeDo(o, ex, strings.Fields(op))
		progress.Add(1)
		o.Obs("%s", obs)
	}
}

func safeDo(o *Out, ex Exec, f []string) (obs string) {
	defer func() {
		if r := recover(); r != nil {
			msg := fmt.Sprint(r)
			if len(msg) > 60 {
				msg = msg[:60]
			}
			msg = strings.ReplaceAll(msg, " ", "_")
			msg = strings.ReplaceAll(msg, "\n", "_")
			o.ObsHist["panic"]++
			obs = "panic:" + msg
			if pa, ok := ex.(interface {
				OnPanic(o *Out, f []string, msg string)
			}); ok {
				pa.OnPanic(o, f, msg)
			}
		}
	}()
	return ex.Do(o, f)
}

func readCases(path string) []genCase {
	f, err := os.Open(path)
	if err != nil {
		panic(err)
	}
	defer f.Close()
	var cases []genCase
	sc := bufio.NewScanner(f)
	sc.Buffer(make([]byte, 1<<20), 1<<26)
	for sc.Scan() {
		line := strings.TrimSpace(sc.Text())
		switch {
		case strings.HasPrefix(line, "case "):
			parts := strings.SplitN(line, " ", 3)
			h := ""
			if len(parts) == 3 {
				h = parts[2]
			}
			cases = append(cases, genCase{header: h, nontrivial: true})
		case strings.HasPrefix(line, "op "):
			if len(cases) == 0 {
				cases = append(cases, genCase{nontrivial: true})
			}
			cases[len(cases)-1].ops = append(cases[len(cases)-1].ops, line[3:])
		}
	}
	return cases
}

// shrinkOps: ddmin over op lines, keeping the oracle failure of the given kind.
func shrinkOps(def SuiteDef, c genCase, kind, prop, feat string) []string {
	fails := func(ops []string) bool {
		o := NewOut(os.DevNull, "shrink", 0, "quick")
		runCase(o, def, genCase{header: c.header, ops: ops})
		o.w.Flush()
		for _, f := range o.Failures {
			if (kind == "" || f.Kind == kind) && (prop == "" || f.Property == prop) && (feat == "" || featString(f.Features) == feat) {
				return true
			}
		}
		return false
	}
	ops := c.ops
	if !fails(ops) {
		return ops
	}
	deadline := time.Now().Add(30 * time.Second)
	n := 2
	for len(ops) >= 2 && time.Now().Before(deadline) {
		chunk := (len(ops) + n - 1) / n
		reduced := false
		for i := 0; i < len(ops); i += chunk {
			cand := append(append([]string{}, ops[:i]...), ops[min(i+chunk, len(ops)):]...)
			if len(cand) > 0 && fails(cand) {
				ops = cand
				n = max(n-1, 2)
				reduced = true
				break
			}
		}
		if !reduced {
			if chunk == 1 {
				break
			}
			n = min(n*2, len(ops))
		}
	}
	return ops
}

type Config struct {
	Seed    uint64
	Tier    string
	Shard   int
	NShards int
}

func (c Config) Thorough() bool { return c.Tier == "thorough" }

var suites = map[string]SuiteDef{}

func featString(m map[string]string) string {
	ks := make([]string, 0, len(m))
	for k := range m {
		ks = append(ks, k)
	}
	sort.Strings(ks)
	parts := make([]string, len(ks))
	for i, k := range ks {
		parts[i] = k + "=" + m[k]
	}
	return strings.Join(parts, ",")
}
