package main

import (
	"fmt"
	"math/rand/v2"
	"sort"
	"strconv"
	"strings"

	"github.com/cilium/statedb/part"
)

func init() {
	suites["part"] = SuiteDef{Gen: genPart, NewExec: func(string) Exec { return &partExec{} }}
}

// ---------------------------------------------------------------------------
// generator

type partGen struct {
	r      *rand.Rand
	ops    []string
	keys   [][]byte // keys used so far (for re-use)
	nvers  int
	niters int
	mode   int
	parent []int
	dirty  []bool
	head   int // result of the last notified transaction (the only version that may be notified from)
}

func (g *partGen) addVer(parent int) {
	g.parent = append(g.parent, parent)
	g.dirty = append(g.dirty, false)
	g.nvers++
}

func (g *partGen) markDirty(v int) {
	for ; v >= 0; v = g.parent[v] {
		g.dirty[v] = true
	}
}

func (g *partGen) emit(format string, args ...any) {
	g.ops = append(g.ops, fmt.Sprintf(format, args...))
}

func (g *partGen) key() []byte {
	r := g.r
	if len(g.keys) > 0 && r.IntN(3) == 0 {
		k := g.keys[r.IntN(len(g.keys))]
		switch r.IntN(4) {
		case 0:
			if len(k) > 0 {
				return k[:r.IntN(len(k))] // prefix of a used key
			}
		case 1:
			return append(append([]byte{}, k...), byte(r.IntN(3))) // extension
		}
		return k
	}
	var k []byte
	switch g.mode {
	case 0: // dense fan-out under a short stem: walks node4 -> 16 -> 48 -> 256 and back
		stems := [][]byte{{}, {'a'}, {'a', 'b'}, {0}}
		k = append(append([]byte{}, stems[r.IntN(len(stems))]...), byte(r.IntN(64)))
		if r.IntN(4) == 0 {
			k = append(k, byte(r.IntN(4)))
		}
	case 1: // full byte range, 1-2 levels
		k = []byte{byte(r.IntN(256))}
		if r.IntN(2) == 0 {
			k = append(k, byte(r.IntN(256)))
		}
	default:
		k = genKey(r, 5)
	}
	g.keys = append(g.keys, k)
	return k
}

func (g *partGen) readOp(v int) {
	r := g.r
	k := g.key()
	switch r.IntN(7) {
	case 0:
		g.emit("vget %d %s", v, hx(k))
	case 1:
		g.emit("vprefix %d %s", v, hx(k))
	case 2:
		g.emit("vlb %d %s", v, hx(k))
	case 3:
		g.emit("viter %d", v)
	case 4:
		g.emit("vlen %d", v)
	case 5:
		g.emit("vrootwatch %d", v)
	case 6:
		kinds := []string{"iter", "lb", "prefix"}
		g.emit("vkeepiter %d %s %s", v, kinds[r.IntN(3)], hx(k))
		g.niters++
	}
}

func genPart(cfg Config, emit func(string, bool, []string)) {
	n := 250
	maxTxns, maxOps := 6, 30
	if cfg.Thorough() {
		n, maxTxns, maxOps = 2500, 10, 120
	}
	for c := 0; c < n; c++ {
		g := &partGen{r: newRand(cfg.Seed, uint64(1100+c)), mode: c % 3}
		r := g.r
		ro := 0
		if c%5 == 4 {
			ro = 1
		}
		g.emit("new %d", ro)
		g.addVer(-1)
		if c%32 == 19 {
			// the FIRST transaction of a fresh tree (transaction id 0, the id leaves report): iterators and
			// clones taken over a single entry inside the transaction, which then overwrites / removes
			// that entry; the iterators keep what they were taken over
			k1 := hx(g.key())
			k2 := hx(append(unhx(k1), 1))
			g.emit("txn 0")
			g.emit("ins %s 10", k1)
			if r.IntN(2) == 0 {
				g.emit("ins %s 20", k2)
			}
			kinds := [][]string{{"prefix", k1}, {"lb", k1}, {"iter", "x"}, {"prefix", k2}}
			n0 := g.niters
			for _, kd := range kinds {
				g.emit("keepiter %s %s", kd[0], kd[1])
				g.niters++
				switch r.IntN(3) {
				case 0:
					g.emit("ins %s %d", k1, 11+g.niters)
				case 1:
					g.emit("mod %s %d", k1, 11+g.niters)
				default:
					g.emit("del %s", k1)
					g.emit("ins %s %d", k1, 31+g.niters)
				}
			}
			for i := n0; i < g.niters; i++ {
				g.emit("iterall %d", i)
			}
			g.emit("commit")
			g.addVer(0)
			g.head = g.nvers - 1
			g.emit("notify")
			for i := n0; i < g.niters; i++ {
				g.emit("next %d 1", i)
				g.emit("iterall %d", i)
			}
			g.emit("viter %d", g.head)
			emit(fmt.Sprintf("part first-txn-iterators rootonly=%d", ro), true, g.ops)
			continue
		}
		if c%16 == 11 {
			// (1) keys 33+ radix levels deep with larger siblings at every level: iterators positioned deep
			// in the tree, read with All() twice and with Next() in between
			depth := 33 + r.IntN(4)
			g.emit("txn 0")
			for i := 0; i <= depth; i++ {
				pre := strings.Repeat("a", i)
				if i < depth {
					g.emit("ins %s %d", hx([]byte(pre+"b")), 2*i)
					g.emit("ins %s %d", hx([]byte(pre+"c")), 2*i+1)
				} else {
					g.emit("ins %s 999", hx([]byte(pre)))
				}
			}
			g.emit("commit")
			g.addVer(0)
			g.head = g.nvers - 1
			g.emit("notify")
			deep := strings.Repeat("a", depth)
			g.emit("vkeepiter %d lb %s", g.head, hx([]byte(deep)))
			g.niters++
			g.emit("iterall %d", g.niters-1)
			g.emit("next %d 3", g.niters-1)
			g.emit("iterall %d", g.niters-1)
			g.emit("vkeepiter %d iter x", g.head)
			g.niters++
			g.emit("next %d 40", g.niters-1)
			g.emit("iterall %d", g.niters-1)
			g.emit("iterall %d", g.niters-1)
			// (1b) the deepest keys removed again (a delete path longer than the transaction's parent cache)
			g.emit("txn %d", g.head)
			g.emit("del %s", hx([]byte(deep)))
			g.emit("get %s", hx([]byte(deep)))
			g.emit("del %s", hx([]byte(strings.Repeat("a", depth-1)+"b")))
			g.emit("iter")
			g.emit("len")
			g.emit("commit")
			g.addVer(g.head)
			g.head = g.nvers - 1
			g.emit("notify")
			g.emit("viter %d", g.head)
			g.emit("vget %d %s", g.head, hx([]byte(deep)))
			// (2) a prefix with nothing under it, asked through a transaction that has already written a
			// sibling; a key under that prefix is inserted afterwards: the channel handed out closes
			base := g.head
			for _, q := range []string{"q/", "q/3", "q"} {
				g.emit("txn %d", base)
				g.emit("ins %s 5", hx([]byte("q/2")))
				g.emit("prefix %s", hx([]byte(q+"x")))
				g.emit("prefix %s", hx([]byte("q/3")))
				g.emit("ins %s 7", hx([]byte("q/3x")))
				if r.IntN(2) == 0 {
					g.emit("ins %s 8", hx([]byte(q+"xy")))
				}
				g.emit("commit")
				g.addVer(base)
				g.emit("closed")
				g.emit("notify")
				g.emit("closed")
				base = g.nvers - 1
				g.head = base
				g.emit("txn %d", base)
				g.emit("del %s", hx([]byte("q/2")))
				g.emit("del %s", hx([]byte("q/3x")))
				g.emit("del %s", hx([]byte(q+"xy")))
				g.emit("commit")
				g.addVer(base)
				g.emit("notify")
				base = g.nvers - 1
				g.head = base
			}
			emit(fmt.Sprintf("part deep-iterators rootonly=%d", ro), true, g.ops)
			continue
		}
		if c%16 == 15 {
			// a node at a capacity boundary (4, 16, 48 children): a transaction that would promote it is
			// abandoned, then a second transaction from the SAME version changes a key below that node
			stem := [][]byte{{}, {'s'}, {'s', 0xff}}[r.IntN(3)]
			nkids := []int{16, 16, 4, 48}[r.IntN(4)]
			k := func(suffix ...byte) string { return hx(append(append([]byte{}, stem...), suffix...)) }
			g.emit("txn 0")
			if len(stem) > 0 && r.IntN(2) == 0 {
				g.emit("ins %s 1", hx(stem))
			}
			g.emit("ins %s 2", hx([]byte{'z', 'z'}))
			for i := 0; i < nkids; i++ {
				g.emit("ins %s %d", k(byte(3*i+5)), 10+i)
			}
			g.emit("commit")
			g.addVer(0)
			g.head = g.nvers - 1
			g.emit("notify")
			base := g.head
			for round := 0; round < 3; round++ {
				for _, q := range []string{k(), k(byte(5)), k(byte(5), 'x'), k(byte(8)), k(byte(9)), hx(nil)} {
					g.emit("vprefix %d %s", base, q)
					g.emit("vget %d %s", base, q)
				}
				g.emit("vrootwatch %d", base)
				// the promoting transaction, abandoned
				g.emit("txn %d", base)
				g.emit("ins %s 99", k(byte(9)))
				if r.IntN(2) == 0 {
					g.emit("ins %s 98", k(byte(12)))
				}
				g.emit("abandon")
				g.emit("closed")
				// the retry from the same version
				g.emit("txn %d", base)
				switch round {
				case 0:
					g.emit("ins %s 77", k(byte(5), 'x'))
				case 1:
					g.emit("ins %s 78", k(byte(8)))
				case 2:
					g.emit("del %s", k(byte(8)))
				}
				g.emit("commit")
				g.addVer(base)
				g.emit("closed")
				g.emit("notify")
				g.emit("closed")
				base = g.nvers - 1
				g.head = base
			}
			for v := 0; v < g.nvers; v++ {
				g.emit("viter %d", v)
			}
			emit(fmt.Sprintf("part boundary-abandon kids=%d rootonly=%d", nkids, ro), true, g.ops)
			continue
		}
		if c%16 == 7 {
			// a clone of an UNCOMMITTED transaction used as a tree in its own right: watches taken
			// from the clone, then a transaction opened on the clone changes keys below nodes the
			// parent transaction wrote
			first := r.IntN(2) == 0 // clone of the very first transaction on the new tree, or of a later one
			base := 0
			if !first {
				g.emit("txn 0")
				g.emit("ins %s 1", hx([]byte("z/1")))
				g.emit("ins %s 2", hx([]byte("b/0")))
				g.emit("commit")
				g.addVer(0)
				g.head = g.nvers - 1
				g.emit("notify")
				base = g.head
			}
			g.emit("txn %d", base)
			for i, q := range []string{"b/1", "b/2", "b/3", "c/1"} {
				g.emit("ins %s %d", hx([]byte(q)), 10+i)
			}
			g.emit("clone")
			g.addVer(base)
			cl := g.nvers - 1
			// the parent transaction is abandoned: Clone() is documented "for reading", and a write
			// transaction on the clone after the parent's Notify() would close the shared root
			// channel a second time (DESIGN.md note N8) — not generated
			g.emit("abandon")
			for round := 0; round < 2; round++ {
				for _, q := range []string{"b/", "b", "b/1", "b/2", "b/9", "c/", ""} {
					g.emit("vprefix %d %s", cl, hx([]byte(q)))
					g.emit("vget %d %s", cl, hx([]byte(q)))
				}
				g.emit("vrootwatch %d", cl)
				g.emit("txn %d", cl)
				for i := 1 + r.IntN(3); i > 0; i-- {
					switch r.IntN(4) {
					case 0:
						g.emit("ins %s %d", hx([]byte("b/9")), 30+i)
					case 1:
						g.emit("ins %s %d", hx([]byte("b/1")), 40+i)
					case 2:
						g.emit("del %s", hx([]byte("b/2")))
					case 3:
						g.emit("ins %s %d", hx([]byte("c/2")), 50+i)
					}
				}
				g.emit("commit")
				g.addVer(cl)
				g.emit("closed")
				g.emit("notify")
				g.emit("closed")
				g.emit("viter %d", cl)
				cl = g.nvers - 1
			}
			for v := 0; v < g.nvers; v++ {
				g.emit("viter %d", v)
			}
			emit("part clone-branch", true, g.ops)
			continue
		}
		if c%8 == 3 {
			// threshold walker: one child removed (or added) per transaction across each
			// node-size boundary, with watches on the node taken just before
			stem := [][]byte{{}, {'s'}, {0, 0xff}}[r.IntN(3)]
			withLeaf := r.IntN(2) == 0
			top := []int{52, 19, 7}[r.IntN(3)]
			g.emit("txn 0")
			if withLeaf && len(stem) > 0 {
				g.emit("ins %s 1", hx(stem))
			}
			var kids []byte
			for i := 0; i < top; i++ {
				b := byte(3*i + 1)
				kids = append(kids, b)
				g.emit("ins %s %d", hx(append(append([]byte{}, stem...), b)), i)
			}
			g.emit("commit")
			g.addVer(0)
			g.head = g.nvers - 1
			g.emit("notify")
			r.Shuffle(len(kids), func(i, j int) { kids[i], kids[j] = kids[j], kids[i] })
			for i := 0; i < 7 && i < len(kids); i++ {
				base := g.head
				g.emit("vprefix %d %s", base, hx(stem))
				g.emit("vget %d %s", base, hx(append(append([]byte{}, stem...), 0xfe)))
				g.emit("vget %d %s", base, hx(append(append([]byte{}, stem...), kids[i])))
				g.emit("vrootwatch %d", base)
				g.emit("txn %d", base)
				g.emit("del %s", hx(append(append([]byte{}, stem...), kids[i])))
				g.emit("dump")
				g.emit("commit")
				g.addVer(base)
				g.head = g.nvers - 1
				g.emit("closed")
				g.emit("notify")
				g.emit("closed")
				g.emit("viter %d", base)
			}
			// and back up
			for i := 0; i < 4; i++ {
				base := g.head
				g.emit("vprefix %d %s", base, hx(stem))
				g.emit("txn %d", base)
				g.emit("ins %s %d", hx(append(append([]byte{}, stem...), byte(200+i))), i)
				g.emit("commit")
				g.addVer(base)
				g.head = g.nvers - 1
				g.emit("notify")
				g.emit("closed")
			}
			for v := 0; v < g.nvers; v++ {
				g.emit("viter %d", v)
				g.emit("vlen %d", v)
			}
			emit(fmt.Sprintf("part walker top=%d rootonly=%d", top, ro), true, g.ops)
			continue
		}
		if c%8 == 5 {
			// restructuring walker: deletes that pull a child up one level (node with a
			// leaf and a single child; node4 left with one child) followed by further
			// writes below the moved node in the SAME transaction, with watches on the
			// moved node taken from the version before
			stem := [][]byte{{}, {'s'}, {0}}[r.IntN(3)]
			k := func(suffix string) string { return hx(append(append([]byte{}, stem...), []byte(suffix)...)) }
			// first a transaction on the EMPTY tree that inserts keys and deletes them all again: it changed
			// the tree (dirty) although the root is nil before and after; small nodes with the byte 0xff last
			for _, q := range []string{"", "e", "e1"} {
				g.emit("vprefix 0 %s", k(q))
				g.emit("vget 0 %s", k(q))
			}
			g.emit("vrootwatch 0")
			g.emit("txn 0")
			g.emit("ins %s 70", k("e1"))
			g.emit("ins %s 71", k("e\xff"))
			g.emit("ins %s 72", k("e2"))
			g.emit("del %s", k("e\xff"))
			g.emit("get %s", k("e\xff"))
			g.emit("prefix %s", k("e\xff"))
			g.emit("del %s", k("e1"))
			g.emit("del %s", k("e2"))
			g.emit("commit")
			g.addVer(0)
			g.head = g.nvers - 1
			g.emit("closed")
			g.emit("notify")
			g.emit("closed")
			g.emit("txn %d", g.head)
			g.emit("ins %s 1", k("x"))
			withLeaf := r.IntN(3) != 0
			if withLeaf {
				g.emit("ins %s 2", k("a"))
			} else {
				g.emit("ins %s 2", k("ag"))
			}
			g.emit("ins %s 3", k("abc"))
			if r.IntN(4) != 0 {
				g.emit("ins %s 4", k("abd"))
			}
			g.emit("commit")
			g.addVer(g.head)
			g.head = g.nvers - 1
			g.emit("notify")
			for round := 0; round < 3; round++ {
				base := g.head
				for _, q := range []string{"a", "ab", "abe", "abc", "abd", "ag", ""} {
					g.emit("vprefix %d %s", base, k(q))
					g.emit("vget %d %s", base, k(q))
				}
				g.emit("vrootwatch %d", base)
				g.emit("txn %d", base)
				if withLeaf {
					g.emit("del %s", k("a"))
				} else {
					g.emit("del %s", k("ag"))
				}
				for i := 1 + r.IntN(3); i > 0; i-- {
					switch r.IntN(5) {
					case 0:
						g.emit("ins %s %d", k("abe"), 10+i)
					case 1:
						g.emit("del %s", k("abd"))
					case 2:
						g.emit("ins %s %d", k("abc"), 20+i)
					case 3:
						g.emit("del %s", k("abc"))
					case 4:
						g.emit("ins %s %d", k("a"), 30+i)
					}
				}
				g.emit("dump")
				g.emit("commit")
				g.addVer(base)
				g.head = g.nvers - 1
				g.emit("closed")
				g.emit("notify")
				g.emit("closed")
				g.emit("viter %d", base)
				// rebuild for the next round
				base = g.head
				g.emit("txn %d", base)
				if withLeaf {
					g.emit("ins %s 2", k("a"))
				} else {
					g.emit("ins %s 2", k("ag"))
				}
				g.emit("ins %s 3", k("abc"))
				g.emit("ins %s 4", k("abd"))
				g.emit("del %s", k("abe"))
				g.emit("commit")
				g.addVer(base)
				g.head = g.nvers - 1
				g.emit("notify")
			}
			// an inner node that keeps its own key after its last child is gone, then loses the key too
			step := func(ops ...string) {
				base := g.head
				g.emit("txn %d", base)
				for _, o := range ops {
					g.emit("%s", o)
				}
				g.emit("dump")
				g.emit("commit")
				g.addVer(base)
				g.head = g.nvers - 1
				g.emit("closed")
				g.emit("notify")
				g.emit("closed")
			}
			step("ins "+k("q")+" 50", "ins "+k("qr")+" 51", "ins "+k("qrs")+" 52")
			step("del "+k("qrs"), "del "+k("qr"))
			for _, q := range []string{"q", "qr", "qz", ""} {
				g.emit("vprefix %d %s", g.head, k(q))
				g.emit("vget %d %s", g.head, k(q))
			}
			g.emit("vrootwatch %d", g.head)
			step("del " + k("q"))
			// a key inserted that ends INSIDE the compressed prefix of an inner node: prefix
			// watchers whose prefix ends inside that edge hold the node's channel
			step("ins "+k("wxyz1")+" 60", "ins "+k("wxyz2")+" 61")
			for _, q := range []string{"w", "wx", "wxy", "wxyz", "wxyz1", ""} {
				g.emit("vprefix %d %s", g.head, k(q))
				g.emit("vget %d %s", g.head, k(q))
			}
			step("ins " + k([]string{"w", "wx", "wxy"}[r.IntN(3)]) + " 62")
			for v := 0; v < g.nvers; v++ {
				g.emit("viter %d", v)
				g.emit("vlen %d", v)
			}
			emit(fmt.Sprintf("part restructure rootonly=%d", ro), true, g.ops)
			continue
		}
		ntx := 1 + r.IntN(maxTxns)
		for t := 0; t < ntx; t++ {
			base := g.head
			if r.IntN(4) == 0 {
				base = r.IntN(g.nvers) // branch from an old version
			}
			// collect watches on the base version before the transaction
			for i := r.IntN(4); i > 0; i-- {
				k := g.key()
				switch r.IntN(3) {
				case 0:
					g.emit("vget %d %s", base, hx(k))
				case 1:
					g.emit("vprefix %d %s", base, hx(k))
				case 2:
					g.emit("vrootwatch %d", base)
				}
			}
			if c%6 == 1 || g.mode == 0 {
				// watch the inner nodes of the dense fan-outs: prefix watches on the stems and
				// Get of absent keys below them resolve to those nodes' channels
				for _, stem := range [][]byte{{}, {'a'}, {'a', 'b'}, {0}} {
					if r.IntN(2) == 0 {
						g.emit("vprefix %d %s", base, hx(stem))
					}
					if r.IntN(3) == 0 {
						g.emit("vget %d %s", base, hx(append(append([]byte{}, stem...), 0xfe, 0xfe)))
					}
				}
				if r.IntN(2) == 0 {
					g.emit("vprefix %d %s", base, hx([]byte{byte(r.IntN(256))}))
				}
			}
			if r.IntN(8) == 0 && base == g.head {
				// one-shot Tree.Insert / Tree.Delete
				if r.IntN(2) == 0 {
					g.emit("vins %d %s %d", base, hx(g.key()), r.IntN(1000))
				} else {
					g.emit("vdel %d %s", base, hx(g.key()))
				}
				g.addVer(base)
				g.head = g.nvers - 1
				g.emit("closed")
				continue
			}
			g.emit("txn %d", base)
			nops := r.IntN(maxOps + 1)
			if g.mode == 0 && t == 0 {
				nops += 70 // grow past the node16/node48 thresholds
			}
			big := c%6 == 1
			if big && t == 0 {
				nops += 260 // mode 1 (c%3==1): single node with >48 children -> node256
			}
			shrink := big && t >= 1 && t%2 == 1 // delete-heavy: walk back down through the demotions
			for i := 0; i < nops; i++ {
				k := g.key()
				if shrink {
					nops = max(nops, len(g.keys))
					if i < len(g.keys) {
						g.emit("del %s", hx(g.keys[i]))
						if i%7 == 0 {
							g.emit("dump")
						}
						continue
					}
				}
				switch x := r.IntN(100); {
				case x < 40:
					g.emit("ins %s %d", hx(k), r.IntN(1000))
				case x < 48:
					g.emit("mod %s %d", hx(k), r.IntN(1000))
				case x < 70:
					g.emit("del %s", hx(k))
					if r.IntN(3) == 0 {
						// the deleted key must be gone for point and prefix lookups too
						g.emit("get %s", hx(k))
						g.emit("prefix %s", hx(k))
					}
				case x < 76:
					g.emit("get %s", hx(k))
				case x < 80:
					g.emit("prefix %s", hx(k))
				case x < 83:
					g.emit("lb %s", hx(k))
				case x < 85:
					g.emit("iter")
				case x < 87:
					g.emit("len")
				case x < 90:
					g.emit("clone")
					g.addVer(base)
				case x < 93:
					kinds := []string{"iter", "lb", "prefix"}
					g.emit("keepiter %s %s", kinds[r.IntN(3)], hx(k))
					g.niters++
				case x < 95:
					g.emit("dump")
				case x < 97:
					g.emit("closed")
				default:
					g.readOp(r.IntN(g.nvers))
				}
				if g.niters > 0 && r.IntN(10) == 0 {
					g.emit("next %d %d", r.IntN(g.niters), 1+r.IntN(3))
				}
			}
			if r.IntN(5) == 0 {
				g.emit("abandon")
				g.emit("closed")
			} else {
				g.emit("commit")
				// Notify closes the base's root watch and the watches of replaced nodes:
				// only one notified transaction per lineage (a second one would close
				// the same channels again and panic; see DESIGN.md note N4)
				// (clones share the root watch too, so only the main line is notified)
				canNotify := base == g.head
				g.addVer(base)
				g.emit("closed")
				if canNotify {
					g.head = g.nvers - 1
					g.emit("notify")
				} else {
					g.emit("abandon")
				}
				g.emit("closed")
				g.emit("vdump %d", g.nvers-1)
			}
			for i := r.IntN(3); i > 0; i-- {
				g.readOp(r.IntN(g.nvers))
			}
		}
		// re-read everything kept alive
		for v := 0; v < g.nvers; v++ {
			g.emit("viter %d", v)
			g.emit("vlen %d", v)
		}
		for i := 0; i < g.niters; i++ {
			g.emit("next %d 1000", i)
		}
		g.emit("closed")
		emit(fmt.Sprintf("part mode=%d rootonly=%d", g.mode, ro), true, g.ops)
	}
}

// ---------------------------------------------------------------------------
// executor + oracle (reference: Go maps)

type watchRec struct {
	ch     <-chan struct{}
	name   string
	origin int    // version index, or -1 for the in-flight txn
	kind   string // get, prefix, root, ins
	key    string
	txnSeq int // which txn (for origin -1)
	after  int // for a channel handed out by a transaction AFTER its own writes: length of the touch log then
}

type partIter struct {
	it   part.Iterator[int]
	want []kv
}

type kv struct {
	k string
	v int
}

type partExec struct {
	rootOnly  bool
	versions  []part.Tree[int]
	ref       []map[string]int
	parent    []int
	dirtyD    []bool // some txn in a descendant of this version has been notified
	touchLog  []string // keys changed by the open transaction, in order
	txn       *part.Txn[int]
	txnRef    map[string]int
	txnBase   int
	txnSeq    int
	txnResult int
	txnMut    bool // txn has mutated something
	touched   map[string]bool
	txnDone   bool // committed
	head      int  // version produced by the last notified transaction (newest of the main line)
	names     map[<-chan struct{}]string
	order     []<-chan struct{}
	recs      []watchRec
	closedN   int
	iters     []*partIter
}

func (e *partExec) Close() {}

func (e *partExec) name(ch <-chan struct{}) string {
	if ch == nil {
		return "nil"
	}
	if n, ok := e.names[ch]; ok {
		return n
	}
	if e.names == nil {
		e.names = map[<-chan struct{}]string{}
	}
	n := fmt.Sprintf("w%d", len(e.names)+1)
	e.names[ch] = n
	e.order = append(e.order, ch)
	return n
}

func isClosed(ch <-chan struct{}) bool {
	select {
	case <-ch:
		return true
	default:
		return false
	}
}

func (e *partExec) closedNames() []string {
	var out []string
	for _, ch := range e.order {
		if isClosed(ch) {
			out = append(out, e.names[ch])
		}
	}
	return out
}

func sortedKV(m map[string]int, keep func(k string) bool) []kv {
	var out []kv
	for k, v := range m {
		if keep == nil || keep(k) {
			out = append(out, kv{k, v})
		}
	}
	sort.Slice(out, func(i, j int) bool { return out[i].k < out[j].k })
	return out
}

func showKVs(es []kv) string {
	if len(es) == 0 {
		return "."
	}
	parts := make([]string, len(es))
	for i, e := range es {
		parts[i] = fmt.Sprintf("%s=%d", hx([]byte(e.k)), e.v)
	}
	return strings.Join(parts, " ")
}

func collectIter(it part.Iterator[int]) []kv {
	var out []kv
	it.All(func(k []byte, v int) bool {
		out = append(out, kv{string(k), v})
		return true
	})
	return out
}

func eqKVs(a, b []kv) bool {
	if len(a) != len(b) {
		return false
	}
	for i := range a {
		if a[i] != b[i] {
			return false
		}
	}
	return true
}

func optInt(v int, ok bool) string {
	if !ok {
		return "-"
	}
	return strconv.Itoa(v)
}

func (e *partExec) watch(o *Out, ch <-chan struct{}, origin int, kind, key string, mustBeOpen bool) string {
	n := e.name(ch)
	if ch != nil {
		if mustBeOpen && isClosed(ch) {
			o.Fail("C12", "closed-when-handed-out", map[string]string{"query": kind}, fmt.Sprintf("channel %s for %s(%s) closed when handed out", n, kind, hx([]byte(key))))
		}
		e.recs = append(e.recs, watchRec{ch: ch, name: n, origin: origin, kind: kind, key: key, txnSeq: e.txnSeq, after: len(e.touchLog)})
	}
	return n
}

func (e *partExec) checkReads(o *Out, what string, got, want []kv) {
	if !eqKVs(got, want) {
		o.Fail("C11", "wrong-result", map[string]string{"op": strings.Fields(what)[0]}, fmt.Sprintf("%s: got %s want %s", what, showKVs(got), showKVs(want)))
	}
}

func (e *partExec) Do(o *Out, f []string) string {
	known := len(e.order)
	before := len(e.closedNames())
	obs := e.do(o, f)
	after := 0
	for _, ch := range e.order[:known] {
		if isClosed(ch) {
			after++
		}
	}
	if after != before && f[0] != "notify" && f[0] != "vins" && f[0] != "vdel" {
		o.Fail("C12", "closed-outside-notify", map[string]string{"op": f[0]}, fmt.Sprintf("%d channel(s) closed by op %q", after-before, strings.Join(f, " ")))
	}
	return obs
}

func (e *partExec) version(s string) int { v, _ := strconv.Atoi(s); return v }

func (e *partExec) addVersion(t part.Tree[int], ref map[string]int, parent int) int {
	e.versions = append(e.versions, t)
	cp := make(map[string]int, len(ref))
	for k, v := range ref {
		cp[k] = v
	}
	e.ref = append(e.ref, cp)
	e.parent = append(e.parent, parent)
	e.dirtyD = append(e.dirtyD, false)
	return len(e.versions) - 1
}

// notifyOracle: the must-close rules of C12 for a notified transaction
func (e *partExec) notifyOracle(o *Out, base int, seq int, touched map[string]bool) {
	for _, w := range e.recs {
		fromBase := w.origin == base || (w.origin == -1 && w.txnSeq == seq && w.kind != "ins")
		if !fromBase && !(w.kind == "ins" && w.origin == -2-base) {
			continue
		}
		must := false
		switch w.kind {
		case "root":
			must = len(touched) > 0
		case "get", "ins":
			must = touched[w.key]
		case "prefix":
			for k := range touched {
				if strings.HasPrefix(k, w.key) {
					must = true
				}
			}
		}
		if must && !isClosed(w.ch) {
			o.Fail("C12", "missed-close", map[string]string{"query": w.kind, "rootonly": strconv.FormatBool(e.rootOnly)},
				fmt.Sprintf("channel %s from %s(%s) on v%d still open after a notified txn changed %v", w.name, w.kind, hx([]byte(w.key)), base, keysOf(touched)))
		}
		if w.kind == "root" && !must && w.origin == base && !e.dirtyD[base] && isClosed(w.ch) {
			o.Fail("C12", "root-closed-without-change", nil, fmt.Sprintf("root watch %s of v%d closed by a txn that changed nothing", w.name, base))
		}
	}
	// a Prefix channel handed out by the transaction itself after it had written (Txn.Prefix freezes
	// what was built so far): closed if the transaction LATER changed a key under the prefix
	if seq == e.txnSeq && !e.rootOnly {
		for _, w := range e.recs {
			if w.origin != -1000000 || w.txnSeq != seq || w.kind != "prefix" || w.after > len(e.touchLog) {
				continue
			}
			for _, k := range e.touchLog[w.after:] {
				if strings.HasPrefix(k, w.key) && !isClosed(w.ch) {
					o.Fail("C12", "missed-close", map[string]string{"query": "prefix-inside-the-transaction", "rootonly": "false"},
						fmt.Sprintf("channel %s from Txn.Prefix(%s), handed out by the transaction after earlier writes, is still open after Notify although the transaction went on to change %s", w.name, hx([]byte(w.key)), hx([]byte(k))))
					break
				}
			}
		}
	}
	for v := base; v >= 0; v = e.parent[v] {
		if len(touched) > 0 {
			e.dirtyD[v] = true
		}
	}
}

func keysOf(m map[string]bool) []string {
	var out []string
	for k := range m {
		out = append(out, hx([]byte(k)))
	}
	sort.Strings(out)
	return out
}

func (e *partExec) do(o *Out, f []string) string {
	switch f[0] {
	case "new":
		e.rootOnly = f[1] == "1"
		var t part.Tree[int]
		if e.rootOnly {
			t = part.New[int](part.RootOnlyWatch)
		} else {
			t = part.New[int]()
		}
		e.addVersion(t, map[string]int{}, -1)
		return "v0"
	case "txn":
		v := e.version(f[1])
		e.txn = e.versions[v].Txn()
		e.txnRef = map[string]int{}
		for k, x := range e.ref[v] {
			e.txnRef[k] = x
		}
		e.txnBase, e.txnMut, e.txnDone = v, false, false
		e.touched = map[string]bool{}
		e.touchLog = nil
		e.txnSeq++
		return "ok"
	case "ins", "mod":
		k := unhx(f[1])
		val, _ := strconv.Atoi(f[2])
		wantOld, had := e.txnRef[string(k)]
		var (
			old    int
			hadOld bool
			nv     int
			w      <-chan struct{}
		)
		if f[0] == "ins" {
			old, hadOld, w = e.txn.InsertWatch(k, val)
			nv = val
		} else {
			old, nv, hadOld, w = e.txn.ModifyWatch(k, val, func(a, b int) int { return a + b })
			want := val
			if had {
				want = wantOld + val
			}
			if nv != want {
				o.Fail("C11", "wrong-result", map[string]string{"op": "mod"}, fmt.Sprintf("Modify(%s,%d) new value %d want %d", f[1], val, nv, want))
			}
		}
		if hadOld != had || (had && old != wantOld) {
			o.Fail("C11", "wrong-result", map[string]string{"op": f[0]}, fmt.Sprintf("%s(%s): old=%s want %s", f[0], f[1], optInt(old, hadOld), optInt(wantOld, had)))
		}
		e.txnRef[string(k)] = nv
		e.txnMut = true
		e.touched[string(k)] = true
		e.touchLog = append(e.touchLog, string(k))
		// InsertWatch channel: "closes when that key is next changed" by a txn on the version this txn commits to
		n := e.name(w)
		if w != nil {
			if isClosed(w) && e.txnBase == e.head {
				o.Fail("C12", "closed-when-handed-out", map[string]string{"query": "ins"}, fmt.Sprintf("channel %s from %s(%s) closed when handed out", n, f[0], f[1]))
			}
			e.recs = append(e.recs, watchRec{ch: w, name: n, origin: -1000000, kind: "ins-pending", key: string(k), txnSeq: e.txnSeq})
		}
		if f[0] == "ins" {
			return fmt.Sprintf("%s %s", optInt(old, hadOld), n)
		}
		return fmt.Sprintf("%s %d %s", optInt(old, hadOld), nv, n)
	case "del":
		k := unhx(f[1])
		wantOld, had := e.txnRef[string(k)]
		old, hadOld := e.txn.Delete(k)
		if hadOld != had || (had && old != wantOld) {
			o.Fail("C11", "wrong-result", map[string]string{"op": "del"}, fmt.Sprintf("Delete(%s): old=%s want %s", f[1], optInt(old, hadOld), optInt(wantOld, had)))
		}
		if had {
			delete(e.txnRef, string(k))
			e.txnMut = true
			e.touched[string(k)] = true
			e.touchLog = append(e.touchLog, string(k))
		}
		return optInt(old, hadOld)
	case "get":
		k := unhx(f[1])
		v, w, ok := e.txn.Get(k)
		want, had := e.txnRef[string(k)]
		if ok != had || (had && v != want) {
			o.Fail("C11", "wrong-result", map[string]string{"op": "get"}, fmt.Sprintf("txn.Get(%s)=%s want %s", f[1], optInt(v, ok), optInt(want, had)))
		}
		origin := -1
		if e.txnMut {
			origin = -1000000 // not a base-version channel any more
		}
		return fmt.Sprintf("%s %s", optInt(v, ok), e.watch(o, w, origin, "get", string(k), e.txnBase == e.head))
	case "prefix":
		k := unhx(f[1])
		it, w := e.txn.Prefix(k)
		got := collectIter(it)
		want := sortedKV(e.txnRef, func(s string) bool { return strings.HasPrefix(s, string(k)) })
		e.checkReads(o, "txn.Prefix "+f[1], got, want)
		origin := -1
		if e.txnMut {
			origin = -1000000
		}
		return fmt.Sprintf("%s %s", e.watch(o, w, origin, "prefix", string(k), e.txnBase == e.head), showKVs(got))
	case "lb":
		k := unhx(f[1])
		got := collectIter(e.txn.LowerBound(k))
		want := sortedKV(e.txnRef, func(s string) bool { return s >= string(k) })
		e.checkReads(o, "txn.LowerBound "+f[1], got, want)
		return showKVs(got)
	case "iter":
		got := collectIter(e.txn.Iterator())
		e.checkReads(o, "txn.Iterator", got, sortedKV(e.txnRef, nil))
		return showKVs(got)
	case "len":
		if e.txn.Len() != len(e.txnRef) {
			o.Fail("C11", "wrong-result", map[string]string{"op": "len"}, fmt.Sprintf("txn.Len()=%d want %d", e.txn.Len(), len(e.txnRef)))
		}
		return strconv.Itoa(e.txn.Len())
	case "rootwatch":
		origin := -1
		if e.txnMut {
			origin = -1000000
		}
		return e.watch(o, e.txn.RootWatch(), origin, "root", "", e.txnBase == e.head)
	case "clone":
		t := e.txn.Clone()
		v := e.addVersion(t, e.txnRef, e.txnBase)
		return fmt.Sprintf("v%d", v)
	case "commit":
		t := e.txn.Commit()
		v := e.addVersion(t, e.txnRef, e.txnBase)
		e.txnDone = true
		e.txnResult = v
		// InsertWatch channels of this txn now belong to version v
		for i := range e.recs {
			if e.recs[i].kind == "ins-pending" && e.recs[i].txnSeq == e.txnSeq {
				// only the last InsertWatch per key is the one attached to the committed leaf
				e.recs[i].kind = "ins"
				e.recs[i].origin = -2 - v
			}
		}
		// earlier InsertWatch results for a key changed again later in the same txn
		// are not constrained (DESIGN.md note N1): keep only the latest per key
		last := map[string]int{}
		for i, r := range e.recs {
			if r.kind == "ins" && r.origin == -2-v {
				last[r.key] = i
			}
		}
		for i := range e.recs {
			if e.recs[i].kind == "ins" && e.recs[i].origin == -2-v && last[e.recs[i].key] != i {
				e.recs[i].kind = "ins-superseded"
			}
		}
		// a key deleted later in the txn has no leaf any more
		for i := range e.recs {
			if e.recs[i].kind == "ins" && e.recs[i].origin == -2-v {
				if _, ok := e.txnRef[e.recs[i].key]; !ok {
					e.recs[i].kind = "ins-superseded"
				}
			}
		}
		if t.Len() != len(e.txnRef) {
			o.Fail("C11", "wrong-result", map[string]string{"op": "commit-len"}, fmt.Sprintf("committed Len()=%d want %d", t.Len(), len(e.txnRef)))
		}
		return fmt.Sprintf("v%d %d", v, t.Len())
	case "notify":
		e.txn.Notify()
		e.notifyOracle(o, e.txnBase, e.txnSeq, e.touched)
		e.head = e.txnResult
		e.txn = nil
		return "ok"
	case "abandon":
		e.txn = nil
		return "ok"
	case "vins", "vdel":
		v := e.version(f[1])
		k := unhx(f[2])
		ref := map[string]int{}
		for a, b := range e.ref[v] {
			ref[a] = b
		}
		wantOld, had := ref[string(k)]
		var (
			old    int
			hadOld bool
			t      part.Tree[int]
		)
		touched := map[string]bool{}
		if f[0] == "vins" {
			val, _ := strconv.Atoi(f[3])
			old, hadOld, t = e.versions[v].Insert(k, val)
			ref[string(k)] = val
			touched[string(k)] = true
		} else {
			old, hadOld, t = e.versions[v].Delete(k)
			if had {
				delete(ref, string(k))
				touched[string(k)] = true
			}
		}
		if hadOld != had || (had && old != wantOld) {
			o.Fail("C11", "wrong-result", map[string]string{"op": f[0]}, fmt.Sprintf("Tree.%s(%s): old=%s want %s", f[0], f[2], optInt(old, hadOld), optInt(wantOld, had)))
		}
		nv := e.addVersion(t, ref, v)
		e.txnSeq++
		e.notifyOracle(o, v, e.txnSeq, touched)
		e.head = nv
		return fmt.Sprintf("%s v%d", optInt(old, hadOld), nv)
	case "vget":
		v := e.version(f[1])
		k := unhx(f[2])
		val, w, ok := e.versions[v].Get(k)
		want, had := e.ref[v][string(k)]
		if ok != had || (had && val != want) {
			o.Fail("C11", "persistence", map[string]string{"op": "vget"}, fmt.Sprintf("v%d.Get(%s)=%s want %s", v, f[2], optInt(val, ok), optInt(want, had)))
		}
		return fmt.Sprintf("%s %s", optInt(val, ok), e.watch(o, w, v, "get", string(k), v == e.head))
	case "vprefix":
		v := e.version(f[1])
		k := unhx(f[2])
		it, w := e.versions[v].Prefix(k)
		got := collectIter(it)
		want := sortedKV(e.ref[v], func(s string) bool { return strings.HasPrefix(s, string(k)) })
		if !eqKVs(got, want) {
			o.Fail("C11", "persistence", map[string]string{"op": "vprefix"}, fmt.Sprintf("v%d.Prefix(%s): got %s want %s", v, f[2], showKVs(got), showKVs(want)))
		}
		return fmt.Sprintf("%s %s", e.watch(o, w, v, "prefix", string(k), v == e.head), showKVs(got))
	case "vlb":
		v := e.version(f[1])
		k := unhx(f[2])
		got := collectIter(e.versions[v].LowerBound(k))
		want := sortedKV(e.ref[v], func(s string) bool { return s >= string(k) })
		if !eqKVs(got, want) {
			o.Fail("C11", "persistence", map[string]string{"op": "vlb"}, fmt.Sprintf("v%d.LowerBound(%s): got %s want %s", v, f[2], showKVs(got), showKVs(want)))
		}
		return showKVs(got)
	case "viter":
		v := e.version(f[1])
		got := collectIter(e.versions[v].Iterator())
		want := sortedKV(e.ref[v], nil)
		if !eqKVs(got, want) {
			o.Fail("C11", "persistence", map[string]string{"op": "viter"}, fmt.Sprintf("v%d iteration: got %s want %s", v, showKVs(got), showKVs(want)))
		}
		return showKVs(got)
	case "vlen":
		v := e.version(f[1])
		if e.versions[v].Len() != len(e.ref[v]) {
			o.Fail("C11", "persistence", map[string]string{"op": "vlen"}, fmt.Sprintf("v%d.Len()=%d want %d", v, e.versions[v].Len(), len(e.ref[v])))
		}
		return strconv.Itoa(e.versions[v].Len())
	case "vrootwatch":
		v := e.version(f[1])
		return e.watch(o, e.versions[v].RootWatch(), v, "root", "", v == e.head)
	case "keepiter", "vkeepiter":
		var (
			it   part.Iterator[int]
			ref  map[string]int
			kind string
			k    []byte
		)
		if f[0] == "keepiter" {
			kind, k = f[1], unhx(f[2])
			ref = e.txnRef
			switch kind {
			case "lb":
				it = e.txn.LowerBound(k)
			case "prefix":
				it, _ = e.txn.Prefix(k)
			default:
				it = e.txn.Iterator()
			}
		} else {
			v := e.version(f[1])
			kind, k = f[2], unhx(f[3])
			ref = e.ref[v]
			switch kind {
			case "lb":
				it = e.versions[v].LowerBound(k)
			case "prefix":
				it, _ = e.versions[v].Prefix(k)
			default:
				it = e.versions[v].Iterator()
			}
		}
		var want []kv
		switch kind {
		case "lb":
			want = sortedKV(ref, func(s string) bool { return s >= string(k) })
		case "prefix":
			want = sortedKV(ref, func(s string) bool { return strings.HasPrefix(s, string(k)) })
		default:
			want = sortedKV(ref, nil)
		}
		e.iters = append(e.iters, &partIter{it: it, want: want})
		return fmt.Sprintf("i%d", len(e.iters)-1)
	case "iterall":
		// Iterator.All(): "can be called multiple times, does not modify the iterator" — twice
		i, _ := strconv.Atoi(f[1])
		pi := e.iters[i]
		var res [2][]kv
		for round := 0; round < 2; round++ {
			for k, v := range pi.it.All {
				res[round] = append(res[round], kv{string(k), v})
			}
			if !eqKVs(res[round], pi.want) {
				o.Fail("C11", "persistence", map[string]string{"op": "iterator-all", "round": strconv.Itoa(round + 1)}, fmt.Sprintf("retained iterator i%d, All() number %d: got %d entries %s want %d entries %s", i, round+1, len(res[round]), showKVs(res[round]), len(pi.want), showKVs(pi.want)))
			}
		}
		return showKVs(res[1])
	case "next":
		i, _ := strconv.Atoi(f[1])
		n, _ := strconv.Atoi(f[2])
		pi := e.iters[i]
		var got []kv
		for j := 0; j < n; j++ {
			k, v, ok := pi.it.Next()
			if !ok {
				break
			}
			got = append(got, kv{string(k), v})
		}
		want := pi.want
		if len(want) > n {
			want = want[:n]
		}
		if !eqKVs(got, want) {
			o.Fail("C11", "persistence", map[string]string{"op": "iterator-next"}, fmt.Sprintf("retained iterator i%d: got %s want %s", i, showKVs(got), showKVs(want)))
		}
		pi.want = pi.want[len(want):]
		return showKVs(got)
	case "closed":
		cl := e.closedNames()
		if len(cl) == 0 {
			return "."
		}
		return strings.Join(cl, " ")
	case "dump":
		return part.VerifDumpTxn(e.txn)
	case "vdump":
		return part.VerifDumpTree(e.versions[e.version(f[1])])
	}
	return "bad-op"
}
