package main

// suite `vtab` (C03, C09): a table whose objects are plain comparable VALUES (not
// pointers): Insert / Modify with merge / CompareAndSwap / Delete / CompareAndDelete,
// reads through the primary and the revision index.  The op syntax is the table suite's
// (table "a"), so the Lean table driver runs the same lines on Model.Table.

import (
	"fmt"
	"sort"
	"strconv"
	"strings"

	"github.com/cilium/statedb"
	"github.com/cilium/statedb/index"
)

func init() {
	suites["vtab"] = SuiteDef{Gen: genVTab, NewExec: func(string) Exec { return newVTabExec() }}
}

type vObj struct {
	ID  string
	Val int
}

func (o vObj) TableHeader() []string { return []string{"ID", "Val"} }
func (o vObj) TableRow() []string    { return []string{o.ID, strconv.Itoa(o.Val)} }

var vIDIndex = statedb.Index[vObj, string]{
	Name:       "id",
	FromObject: func(o vObj) index.KeySet { return index.NewKeySet(index.String(o.ID)) },
	FromKey:    index.String,
	FromString: index.FromString,
	Unique:     true,
}

func genVTab(cfg Config, emit func(string, bool, []string)) {
	n, maxTx, maxOps := 150, 6, 12
	if cfg.Thorough() {
		n, maxTx, maxOps = 1500, 10, 30
	}
	for c := 0; c < n; c++ {
		r := newRand(cfg.Seed, uint64(2600+c))
		var ops []string
		add := func(f string, a ...any) { ops = append(ops, fmt.Sprintf(f, a...)) }
		ids := []string{"", "a", "b", "ab", "abc", "\x00", "\xff", "k"}
		ord := map[string]int{}
		obj := func(val int) string {
			id := ids[r.IntN(len(ids))]
			if _, ok := ord[id]; !ok {
				ord[id] = len(ord) + 1
			}
			return fmt.Sprintf("%s %d 0 - - 0 %d", hx([]byte(id)), val, ord[id])
		}
		nsnap := 0
		specs := []string{"cur", "cur", "cur-1", "cur+1", "0", "big"}
		for t := 0; t < 2+r.IntN(maxTx); t++ {
			add("wtxn a")
			for i := r.IntN(maxOps + 1); i > 0; i-- {
				switch x := r.IntN(100); {
				case x < 22:
					add("ins a %s", obj(r.IntN(50)))
				case x < 34:
					// Modify whose merge leaves the value as it is (adds 0)
					add("mod a %s", obj(0))
				case x < 44:
					add("mod a %s", obj(1+r.IntN(9)))
				case x < 54:
					add("cas a %s %s", specs[r.IntN(len(specs))], obj(r.IntN(50)))
				case x < 64:
					add("del a %s", hx([]byte(ids[r.IntN(len(ids))])))
				case x < 70:
					add("cad a %s %s", specs[r.IntN(len(specs))], hx([]byte(ids[r.IntN(len(ids))])))
				case x < 78:
					add("get w a id %s", hx([]byte(ids[r.IntN(len(ids))])))
				case x < 84:
					add("all w a")
				case x < 90:
					add("rev w a")
				case x < 95:
					add("byrev w a %d", r.IntN(8))
				default:
					add("num w a")
				}
			}
			if r.IntN(5) == 0 {
				add("abort")
			} else {
				add("commit")
				nsnap++
			}
			add("rtxn")
			nsnap++
			h := fmt.Sprintf("s%d", nsnap-1)
			add("all %s a", h)
			add("rev %s a", h)
			add("byrev %s a 0", h)
			add("num %s a", h)
		}
		for s := 0; s < nsnap; s++ {
			add("all s%d a", s)
			add("rev s%d a", s)
		}
		emit("vtab", true, ops)
	}
}

type vRef struct {
	objs map[string]struct {
		val int
		rev uint64
	}
	rev uint64
}

func (r *vRef) clone() *vRef {
	c := &vRef{objs: map[string]struct {
		val int
		rev uint64
	}{}, rev: r.rev}
	for k, v := range r.objs {
		c.objs[k] = v
	}
	return c
}

type vtabExec struct {
	db        *statedb.DB
	tbl       statedb.RWTable[vObj]
	wtxn      statedb.WriteTxn
	snaps     []statedb.ReadTxn
	srefs     []*vRef
	committed *vRef
	txnRef    *vRef
}

func newVTabExec() *vtabExec {
	e := &vtabExec{db: statedb.New()}
	var err error
	e.tbl, err = statedb.NewTable(e.db, "values", vIDIndex)
	if err != nil {
		panic(err)
	}
	e.committed = (&vRef{}).clone()
	return e
}

func (e *vtabExec) Close() {
	if e.wtxn != nil {
		e.wtxn.Abort()
	}
}

func (e *vtabExec) handle(h string) (statedb.ReadTxn, *vRef, bool) {
	if h == "w" {
		if e.wtxn == nil {
			return nil, nil, false
		}
		return e.wtxn, e.txnRef, true
	}
	i, err := strconv.Atoi(strings.TrimPrefix(h, "s"))
	if err != nil || i >= len(e.snaps) {
		return nil, nil, false
	}
	return e.snaps[i], e.srefs[i], true
}

func showV(id string, val int, rev uint64) string {
	return fmt.Sprintf("%s=%d@%d", hx([]byte(id)), val, rev)
}

func (e *vtabExec) resolve(ref *vRef, id, spec string) uint64 {
	cur := ref.rev
	if o, ok := ref.objs[id]; ok {
		cur = o.rev
	}
	switch spec {
	case "cur":
		return cur
	case "cur-1":
		if cur == 0 {
			return 0
		}
		return cur - 1
	case "cur+1":
		return cur + 1
	case "0":
		return 0
	}
	return 1000000
}

func (e *vtabExec) Do(o *Out, f []string) string {
	switch f[0] {
	case "wtxn":
		if e.wtxn != nil {
			return "bad-op"
		}
		e.wtxn = e.db.WriteTxn(e.tbl)
		e.txnRef = e.committed.clone()
		return "ok"
	case "commit":
		if e.wtxn == nil {
			return "nil"
		}
		rtx := e.wtxn.Commit()
		e.wtxn = nil
		e.committed = e.txnRef
		e.txnRef = nil
		e.snaps = append(e.snaps, rtx)
		e.srefs = append(e.srefs, e.committed.clone())
		return fmt.Sprintf("s%d", len(e.snaps)-1)
	case "abort":
		if e.wtxn != nil {
			e.wtxn.Abort()
		}
		e.wtxn, e.txnRef = nil, nil
		return "ok"
	case "rtxn":
		e.snaps = append(e.snaps, e.db.ReadTxn())
		e.srefs = append(e.srefs, e.committed.clone())
		return fmt.Sprintf("s%d", len(e.snaps)-1)
	case "ins", "mod", "cas":
		if e.wtxn == nil {
			return "- closed"
		}
		a := f[2:]
		spec := ""
		if f[0] == "cas" {
			spec, a = f[2], f[3:]
		}
		id := string(unhx(a[0]))
		val, _ := strconv.Atoi(a[1])
		ref := e.txnRef
		old, had := ref.objs[id]
		var (
			got    vObj
			gotHad bool
			err    error
		)
		newVal := val
		wantErr := "ok"
		switch f[0] {
		case "ins":
			got, gotHad, err = e.tbl.Insert(e.wtxn, vObj{id, val})
		case "mod":
			got, gotHad, err = e.tbl.Modify(e.wtxn, vObj{id, val}, func(old, new vObj) vObj { return vObj{old.ID, old.Val + new.Val} })
			if had {
				newVal = old.val + val
			}
		case "cas":
			guard := e.resolve(ref, id, spec)
			got, gotHad, err = e.tbl.CompareAndSwap(e.wtxn, guard, vObj{id, val})
			if guard > 0 {
				if !had {
					wantErr = "notFound"
				} else if old.rev != guard {
					wantErr = "revNotEqual"
				}
			}
		}
		gotErr := errName(err)
		wantHad := had && wantErr != "notFound"
		if gotErr != wantErr || gotHad != wantHad || (gotHad && got.Val != old.val) {
			o.Fail("C03", "wrong-result", map[string]string{"op": f[0], "value_objects": "true", "guard_zero": strconv.FormatBool(f[0] == "cas" && spec == "0")},
				fmt.Sprintf("%s %s: got (hadOld=%v, %s) want (hadOld=%v, %s)", f[0], hx([]byte(id)), gotHad, gotErr, wantHad, wantErr))
		}
		newRev := e.tbl.Revision(e.wtxn)
		if gotErr == "ok" {
			if newRev <= ref.rev {
				o.Fail("C09", "revision-not-increasing", map[string]string{"op": f[0], "value_objects": "true"}, fmt.Sprintf("table revision %d after a successful %s, was %d", newRev, f[0], ref.rev))
			}
			if cur, srev, found := e.tbl.Get(e.wtxn, vIDIndex.Query(id)); !found || srev != newRev || cur.Val != newVal {
				o.Fail("C09", "write-attribution", map[string]string{"op": f[0], "value_objects": "true"},
					fmt.Sprintf("after a successful %s of %s: Get -> found=%v value=%d rev=%d; the write produced value %d and the table revision is %d", f[0], hx([]byte(id)), found, cur.Val, srev, newVal, newRev))
			}
			ref.rev = newRev
			ref.objs[id] = struct {
				val int
				rev uint64
			}{newVal, newRev}
		} else if newRev != ref.rev {
			o.Fail("C09", "revision-changed-by-rejected-op", map[string]string{"op": f[0], "err": gotErr, "value_objects": "true"}, fmt.Sprintf("table revision %d after rejected %s, was %d", newRev, f[0], ref.rev))
			ref.rev = newRev
		}
		oldS := "-"
		if gotHad {
			oldS = showV(id, got.Val, old.rev)
		}
		return oldS + " " + gotErr
	case "del", "cad":
		if e.wtxn == nil {
			return "- closed"
		}
		a := f[2:]
		spec := ""
		if f[0] == "cad" {
			spec, a = f[2], f[3:]
		}
		id := string(unhx(a[0]))
		ref := e.txnRef
		old, had := ref.objs[id]
		var (
			got    vObj
			gotHad bool
			err    error
		)
		wantErr := "ok"
		if f[0] == "del" {
			got, gotHad, err = e.tbl.Delete(e.wtxn, vObj{ID: id})
		} else {
			guard := e.resolve(ref, id, spec)
			got, gotHad, err = e.tbl.CompareAndDelete(e.wtxn, guard, vObj{ID: id})
			if guard > 0 && had && old.rev != guard {
				wantErr = "revNotEqual"
			}
		}
		gotErr := errName(err)
		if gotErr != wantErr || gotHad != had || (gotHad && got.Val != old.val) {
			o.Fail("C03", "wrong-result", map[string]string{"op": f[0], "value_objects": "true", "guard_zero": strconv.FormatBool(f[0] == "cad" && spec == "0")},
				fmt.Sprintf("%s %s: got (hadOld=%v, %s) want (hadOld=%v, %s)", f[0], hx([]byte(id)), gotHad, gotErr, had, wantErr))
		}
		newRev := e.tbl.Revision(e.wtxn)
		if gotErr == "ok" && had {
			if newRev <= ref.rev {
				o.Fail("C09", "revision-not-increasing", map[string]string{"op": f[0], "value_objects": "true"}, fmt.Sprintf("table revision %d after a successful delete, was %d", newRev, ref.rev))
			}
			ref.rev = newRev
			delete(ref.objs, id)
		} else if newRev != ref.rev {
			o.Fail("C09", "revision-changed-by-rejected-op", map[string]string{"op": f[0], "err": gotErr, "value_objects": "true"}, fmt.Sprintf("table revision %d after no-op/rejected %s, was %d", newRev, f[0], ref.rev))
			ref.rev = newRev
		}
		oldS := "-"
		if gotHad {
			oldS = showV(id, got.Val, old.rev)
		}
		return oldS + " " + gotErr
	case "get", "all", "rev", "num", "byrev":
		rtx, ref, ok := e.handle(f[1])
		if !ok {
			return "bad-op"
		}
		type ent struct {
			id  string
			val int
			rev uint64
		}
		var want []ent
		for id, v := range ref.objs {
			want = append(want, ent{id, v.val, v.rev})
		}
		show := func(es []ent) string {
			if len(es) == 0 {
				return "."
			}
			p := make([]string, len(es))
			for i, x := range es {
				p[i] = showV(x.id, x.val, x.rev)
			}
			return strings.Join(p, " ")
		}
		switch f[0] {
		case "rev":
			got := e.tbl.Revision(rtx)
			if got != ref.rev {
				o.Fail("C09", "table-revision", map[string]string{"value_objects": "true"}, fmt.Sprintf("Revision(%s)=%d, the latest successful write was assigned %d", f[1], got, ref.rev))
			}
			return strconv.FormatUint(got, 10)
		case "num":
			got := e.tbl.NumObjects(rtx)
			if got != len(ref.objs) {
				o.Fail("C04", "wrong-result", map[string]string{"op": "num", "value_objects": "true"}, fmt.Sprintf("NumObjects(%s)=%d want %d", f[1], got, len(ref.objs)))
			}
			return strconv.Itoa(got)
		case "get":
			id := string(unhx(f[4]))
			v, rev, found := e.tbl.Get(rtx, vIDIndex.Query(id))
			w, had := ref.objs[id]
			if found != had || (found && (v.Val != w.val || rev != w.rev)) {
				o.Fail("C04", "wrong-result", map[string]string{"op": "get", "value_objects": "true"}, fmt.Sprintf("Get(%s, %s) = (%d@%d, %v) want (%d@%d, %v)", f[1], hx([]byte(id)), v.Val, rev, found, w.val, w.rev, had))
			}
			if !found {
				return "."
			}
			return showV(id, v.Val, rev)
		case "all":
			var got []ent
			for v, rev := range e.tbl.All(rtx) {
				got = append(got, ent{v.ID, v.Val, rev})
			}
			sort.Slice(want, func(i, j int) bool { return want[i].id < want[j].id })
			if show(got) != show(want) {
				o.Fail("C04", "wrong-result", map[string]string{"op": "all", "value_objects": "true"}, fmt.Sprintf("All(%s) = [%s] want [%s]", f[1], show(got), show(want)))
			}
			return show(got)
		default: // byrev
			n, _ := strconv.ParseUint(f[3], 10, 64)
			var got []ent
			for v, rev := range e.tbl.LowerBound(rtx, statedb.ByRevision[vObj](n)) {
				got = append(got, ent{v.ID, v.Val, rev})
			}
			var w []ent
			for _, x := range want {
				if x.rev >= n {
					w = append(w, x)
				}
			}
			sort.Slice(w, func(i, j int) bool { return w[i].rev < w[j].rev })
			if show(got) != show(w) {
				o.Fail("C09", "by-revision-order", map[string]string{"value_objects": "true"}, fmt.Sprintf("LowerBound(ByRevision(%d)) on %s = [%s] want [%s]", n, f[1], show(got), show(w)))
			}
			return show(got)
		}
	}
	return "bad-op"
}
