package main

import (
	"bytes"
	"encoding/hex"
	"errors"
	"fmt"
	"iter"
	"math/rand/v2"
	"os"
	"sort"
	"strconv"
	"strings"
	"sync"
	"sync/atomic"
	"time"

	"github.com/cilium/statedb"
	"github.com/cilium/statedb/index"
)

func init() {
	suites["table"] = SuiteDef{Gen: genTable, NewExec: func(h string) Exec { return newTableExec(h) }}
}

// ---------------------------------------------------------------------------
// schema

type tPfx struct {
	Data []byte
	Len  int
}

type tObj struct {
	ID   string
	Val  int
	UVar int
	Tags []string
	Pfxs []tPfx
	Up   bool
	Ord  int
}

func (o *tObj) TableHeader() []string { return []string{"ID", "Val"} }
func (o *tObj) TableRow() []string {
	return []string{hex.EncodeToString([]byte(o.ID)), strconv.Itoa(o.Val)}
}

func (o *tObj) ukey() string { return hex.EncodeToString([]byte(o.ID)) + ":" + strconv.Itoa(o.UVar) }

var (
	tIDIndex = statedb.Index[*tObj, string]{
		Name:       "id",
		FromObject: func(o *tObj) index.KeySet { return index.NewKeySet(index.String(o.ID)) },
		FromKey:    index.String,
		FromString: index.FromString,
		Unique:     true,
	}
	tUIndex = statedb.Index[*tObj, string]{
		Name:       "u",
		FromObject: func(o *tObj) index.KeySet { return index.NewKeySet(index.String(o.ukey())) },
		FromKey:    index.String,
		FromString: index.FromString,
		Unique:     true,
	}
	tTagIndex = statedb.Index[*tObj, string]{
		Name:       "tags",
		FromObject: func(o *tObj) index.KeySet { return index.StringSlice(o.Tags) },
		FromKey:    index.String,
		FromString: index.FromString,
		Unique:     false,
	}
	tLpmIndex = statedb.LPMIndex[*tObj]{
		Name: "lpm",
		FromObject: func(o *tObj) iter.Seq2[[]byte, statedb.PrefixLen] {
			return func(yield func([]byte, statedb.PrefixLen) bool) {
				for _, p := range o.Pfxs {
					if !yield(p.Data, statedb.PrefixLen(p.Len)) {
						return
					}
				}
			}
		},
		Unique: false,
	}
	tULpmIndex = statedb.LPMIndex[*tObj]{
		Name: "ulpm",
		FromObject: func(o *tObj) iter.Seq2[[]byte, statedb.PrefixLen] {
			return func(yield func([]byte, statedb.PrefixLen) bool) {
				if o.Up {
					yield([]byte{byte(o.Ord >> 8), byte(o.Ord)}, 16)
				}
			}
		},
		Unique: true,
	}
)

// ---------------------------------------------------------------------------
// generator

type tableGen struct {
	r         *rand.Rand
	ops       []string
	ids       []string
	ord       map[string]int
	nsnap     int
	niter     int
	ndone     int
	liveDones []int
	nkept     int
	dense     bool // watch-dense case: every query is a watch variant (C06 glue comparison)
}

func (g *tableGen) add(f string, a ...any) { g.ops = append(g.ops, fmt.Sprintf(f, a...)) }

func (g *tableGen) id() string {
	r := g.r
	if len(g.ids) > 0 && r.IntN(3) != 0 {
		id := g.ids[r.IntN(len(g.ids))]
		switch r.IntN(8) {
		case 0:
			if len(id) > 0 {
				id = id[:r.IntN(len(id))]
			}
		case 1:
			id += string([]byte{byte(r.IntN(3))})
		default:
			return id
		}
		return g.reg(id)
	}
	return g.reg(string(genKey(r, 4)))
}

func (g *tableGen) reg(id string) string {
	if _, ok := g.ord[id]; !ok {
		g.ord[id] = len(g.ord) + 1
		g.ids = append(g.ids, id)
	}
	return id
}

var tagPool = []string{"", "a", "ab", "abc", "b", "\x00", "\x00\x01", "\x01", "a\x00", "\xff"}
var pfxPool = []tPfx{{[]byte{0x0a, 0x00}, 8}, {[]byte{0x0a, 0x01}, 16}, {[]byte{0x0a, 0x80}, 9}, {[]byte{0x00, 0x00}, 0}, {[]byte{0xc0, 0xa8}, 16}, {[]byte{0xc0, 0x00}, 4}, {[]byte{0x0a, 0x01}, 12}, {[]byte{0x0b, 0xff}, 15},
	{[]byte{0x0a, 0xff}, 8}, {[]byte{0x0a, 0x0f}, 12}, {[]byte{0xc0, 0xff}, 4}, {[]byte{0xff, 0xff}, 0}} // non-canonical: same key as another member after masking

func (g *tableGen) obj(table string) string {
	r := g.r
	id := g.id()
	var tags []string
	for i := r.IntN(4); i > 0; i-- {
		t := tagPool[r.IntN(len(tagPool))]
		dup := false
		for _, x := range tags {
			if x == hx([]byte(t)) {
				dup = true
			}
		}
		if !dup {
			tags = append(tags, hx([]byte(t)))
		}
	}
	ts := "-"
	if len(tags) > 0 {
		ts = strings.Join(tags, ",")
	}
	var pf []string
	if table == "m" && r.IntN(6) == 0 {
		// the same prefix twice in non-canonical form (both mask to one key)
		if r.IntN(2) == 0 {
			pf = []string{"x0a00/8", "x0aff/8"}
		} else {
			pf = []string{"x0a0f/12", "x0a01/12"}
		}
	} else if table == "m" {
		for i := r.IntN(3); i > 0; i-- {
			p := pfxPool[r.IntN(len(pfxPool))]
			s := fmt.Sprintf("%s/%d", hx(p.Data), p.Len)
			dup := false
			for _, x := range pf {
				if x == s {
					dup = true
				}
			}
			if !dup {
				pf = append(pf, s)
			}
		}
	}
	ps := "-"
	if len(pf) > 0 {
		ps = strings.Join(pf, ",")
	}
	up := 0
	if table == "m" && r.IntN(2) == 0 {
		up = 1
	}
	return fmt.Sprintf("%s %d %d %s %s %d %d", hx([]byte(id)), r.IntN(1000), r.IntN(3), ts, ps, up, g.ord[id])
}

func (g *tableGen) query(h string) {
	r := g.r
	t := "m"
	if r.IntN(4) == 0 {
		t = "a"
	}
	kinds := []string{"get", "list", "prefix", "lb"}
	kind := kinds[r.IntN(4)]
	if r.IntN(5) == 0 || g.dense {
		kind += "w" // watch variant
	}
	switch x := r.IntN(12); {
	case x < 3:
		g.add("%s %s %s id %s", kind, h, t, hx([]byte(g.id())))
	case x < 6:
		tag := tagPool[r.IntN(len(tagPool))]
		if r.IntN(4) == 0 && len(tag) > 0 {
			tag = tag[:len(tag)-1]
		}
		g.add("%s %s %s tags %s", kind, h, t, hx([]byte(tag)))
	case x < 7:
		if t == "m" {
			id := g.id()
			k := hex.EncodeToString([]byte(id))
			if kind == "get" || kind == "list" || kind == "getw" || kind == "listw" {
				k += ":" + strconv.Itoa(r.IntN(3))
			} else {
				k = k[:r.IntN(len(k)+1)]
			}
			g.add("%s %s m u %s", kind, h, hx([]byte(k)))
		}
	case x < 9:
		if t == "m" {
			p := pfxPool[r.IntN(len(pfxPool))]
			d, l := p.Data, p.Len
			if strings.HasPrefix(kind, "get") || strings.HasPrefix(kind, "list") {
				if r.IntN(2) == 0 {
					// full-length address under one of the pool prefixes
					d = []byte{p.Data[0], byte(r.IntN(256))}
					l = 16
				}
			} else if r.IntN(2) == 0 {
				l = r.IntN(l + 1)
			}
			g.add("%s %s m lpm %s/%d", kind, h, hx(d), l)
		}
	case x < 10:
		if t == "m" && len(g.ids) > 0 {
			o := g.ord[g.ids[r.IntN(len(g.ids))]]
			g.add("%s %s m ulpm %s/16", kind, h, hx([]byte{byte(o >> 8), byte(o)}))
		}
	case x < 11:
		if strings.HasSuffix(kind, "w") {
			g.add("allw %s %s", h, t)
		} else {
			g.add("all %s %s", h, t)
		}
	default:
		switch r.IntN(3) {
		case 0:
			g.add("num %s %s", h, t)
		case 1:
			g.add("rev %s %s", h, t)
		case 2:
			g.add("byrev %s %s %d", h, t, r.IntN(12))
		}
	}
}

// sweep: the fixed queries asked of a snapshot when it is taken (a random
// subset) and again at the end of the history (all of them)
func (g *tableGen) sweep(h string, n int) {
	qs := []string{"all %s m", "lb %s m tags x", "prefix %s m lpm x0000/0", "all %s a", "rev %s m", "lb %s m u x", "byrev %s m 0", "inited %s m",
		"list %s m lpm x0a00/8", "prefix %s a tags x", "list %s m tags x61", "num %s m", "lb %s m ulpm x0000/0"}
	if n < len(qs) {
		g.r.Shuffle(len(qs), func(i, j int) { qs[i], qs[j] = qs[j], qs[i] })
		qs = qs[:n]
	}
	for _, q := range qs {
		g.add(q, h)
	}
}

// withClosedProbes: after every commit / abort / side transaction the set of closed
// channels (among those handed out so far) is observed and compared with Model.TableWatch
func withClosedProbes(ops []string) []string {
	out := make([]string, 0, len(ops)+len(ops)/4)
	for _, op := range ops {
		out = append(out, op)
		if op == "commit" || op == "abort" || strings.HasPrefix(op, "side ") {
			out = append(out, "closed")
		}
	}
	return out
}

func genTable(cfg Config, emit0 func(string, bool, []string)) {
	emit := func(name string, b bool, ops []string) { emit0(name, b, withClosedProbes(ops)) }
	n, maxTx, maxOps := 200, 8, 12
	if cfg.Thorough() {
		n, maxTx, maxOps = 2000, 14, 40
	}
	// the last `nDense` cases are watch-dense general cases (own random streams; the cases before
	// them are generated exactly as without them)
	nDense := 40
	if cfg.Thorough() {
		nDense = 200
	}
	for c := 0; c < n+nDense; c++ {
		g := &tableGen{r: newRand(cfg.Seed, uint64(300+c)), ord: map[string]int{}}
		r := g.r
		ck := c % 10
		if c >= n {
			ck = 0
			g.dense = true
		}
		if c == n {
			// index-wide channels of the LPM indexes and the root watches, against transactions that
			// change nothing, only fail a guard, write objects without LPM keys, or are aborted
			k1, k2 := hx([]byte("n1")), hx([]byte("n2"))
			g.add("wtxn ma")
			g.add("ins m %s 1 0 x61 x0a00/8 1 1", k1)
			g.add("ins a %s 1 0 x61 - 0 1", k1)
			g.add("commit")
			g.nsnap++
			probe := func() {
				g.add("rtxn")
				g.nsnap++
				h := fmt.Sprintf("s%d", g.nsnap-1)
				g.add("lbw %s m lpm x0000/0", h)
				g.add("getw %s m lpm x0a01/16", h)
				g.add("prefixw %s m ulpm x0000/0", h)
				g.add("allw %s m", h)
				g.add("lbw %s m u x", h)
				g.add("lbw %s m tags x", h)
				g.add("getw %s m id %s", h, k1)
				g.add("getw %s m id %s", h, k2)
				g.add("listw %s m tags x61", h)
				g.add("allw %s a", h)
				g.add("lbw %s a tags x", h)
			}
			probe()
			g.add("wtxn m")
			g.add("cas m big %s 2 0 - - 0 1", k1) // guard fails: primary index dirtied and reverted (K3), nothing else touched
			g.add("lbw w m lpm x0000/0")
			g.add("commit")
			g.nsnap++
			probe()
			g.add("wtxn m")
			g.add("del m %s", k2) // absent
			g.add("cad m big %s", k1)
			g.add("cas m cur %s 5 0 - - 0 2", k2) // object missing
			g.add("commit")
			g.nsnap++
			probe()
			g.add("wtxn m")
			g.add("ins m %s 3 0 - - 0 2", k2) // no tags, no LPM keys: the LPM indexes get a transaction all the same
			g.add("lbw w m lpm x0000/0")
			g.add("allw w m")
			g.add("commit")
			g.nsnap++
			probe()
			g.add("wtxn m")
			g.add("delall m")
			g.add("lbw w m ulpm x0000/0")
			g.add("abort")
			probe()
			g.add("wtxn a")
			g.add("insw a %s 2 0 x62 - 0 2", k2)
			g.add("lbw w m lpm x0000/0")
			g.add("commit")
			g.nsnap++
			probe()
			g.add("wtxn m")
			g.add("delall m")
			g.add("commit")
			g.nsnap++
			probe()
			emit("table index-wide-channels", true, g.ops)
			continue
		}
		if c%40 == 37 {
			// one transaction marks the table's LAST pending initializer done and registers a new one:
			// the table never becomes initialized, so the watch channel a snapshot handed out before stays
			// open — whether that transaction commits or aborts — until the new initializer is done too
			g.add("wtxn m")
			g.add("reginit m init0")
			g.add("commit")
			g.nsnap++
			g.add("rtxn")
			g.nsnap++
			h := fmt.Sprintf("s%d", g.nsnap-1)
			g.add("inited %s m", h)
			g.add("inited - m")
			nextInit := 1
			for k := 0; k < 2; k++ {
				g.add("wtxn m")
				g.add("initdone %d", nextInit-1)
				g.add("reginit m init%d", nextInit)
				g.add("inited w m")
				commit := k == 1 || r.IntN(2) == 0
				if commit {
					g.add("commit")
					g.nsnap++
					nextInit++
				} else {
					g.add("abort")
					// the aborted registration consumed the name slot of the harness only
					nextInit++
					g.add("wtxn m")
					g.add("initdone %d", nextInit-2)
					g.add("reginit m init%d", nextInit)
					g.add("commit")
					g.nsnap++
					nextInit++
				}
				g.add("inited - m")
				g.add("inited %s m", h)
			}
			g.add("wtxn m")
			g.add("initdone %d", nextInit-1)
			g.add("commit")
			g.nsnap++
			g.add("inited - m")
			g.add("inited %s m", h)
			emit("table init-handover", true, g.ops)
			continue
		}
		if c%40 == 27 {
			// objects with 8-12 tags (the first one not the smallest), updated with the same / a shifted
			// tag set: every tag still lists the object, dropped tags do not
			nt := 8 + r.IntN(5)
			mk := func(from int) string {
				var ts []string
				ts = append(ts, hx([]byte{'m', byte('a' + from)}))
				for j := 0; j < nt-1; j++ {
					ts = append(ts, hx([]byte{byte('a' + (from+j)%20), byte('0' + j%3)}))
				}
				return strings.Join(ts, ",")
			}
			g.add("wtxn m")
			g.add("ins m %s 1 0 %s - 0 1", hx([]byte("o1")), mk(0))
			g.add("ins m %s 2 0 %s - 0 2", hx([]byte("o2")), mk(1))
			g.add("commit")
			g.nsnap++
			g.add("wtxn m")
			g.add("ins m %s 3 0 %s - 0 3", hx([]byte("o1")), mk(0)) // same tags, new data
			g.add("list w m tags %s", hx([]byte{'m', 'a'}))
			g.add("ins m %s 4 0 %s - 0 4", hx([]byte("o2")), mk(2)) // shifted tag set
			g.add("list w m tags %s", hx([]byte{'m', 'b'}))
			g.add("list w m tags %s", hx([]byte{'m', 'c'}))
			g.add("commit")
			g.nsnap++
			for _, t := range []string{"ma", "mb", "mc", "a0", "b0", "b1", "c1", "c2"} {
				g.add("list - m tags %s", hx([]byte(t)))
			}
			g.add("prefix - m tags %s", hx([]byte("m")))
			g.add("all - m")
			emit("table many-tags", true, g.ops)
			continue
		}
		if c%40 == 17 {
			// the table's LAST pending initializer is marked done and committed (the commit publishes a
			// new table entry); afterwards a transaction over the OTHER table stays open across a commit to
			// this table, and a write to this table through that transaction is refused
			g.add("wtxn m")
			g.add("reginit m init0")
			if r.IntN(2) == 0 {
				g.add("reginit m init1")
			}
			two := strings.Contains(g.ops[len(g.ops)-1], "init1")
			g.add("ins m %s 1 0 - - 0 1", hx([]byte("k0")))
			g.add("commit")
			g.nsnap++
			g.add("wtxn m")
			g.add("initdone 0")
			if two {
				g.add("initdone 1")
			}
			g.add("commit")
			g.nsnap++
			g.add("inited - m")
			for k := 0; k < 2; k++ {
				g.add("wtxn a")
				g.add("side m %s %d 0 - - 0 %d", hx([]byte{'k', byte('1' + k)}), 2+k, 2+k)
				g.add("get w m id %s", hx([]byte{'k', byte('1' + k)}))
				g.add("ins a %s 1 0 - - 0 %d", hx([]byte{'a', byte('0' + k)}), 1+k)
				g.add("ins m %s 9 0 - - 0 9", hx([]byte("kx"))) // not held: refused
				g.add("rev w m")
				if k == 0 || r.IntN(2) == 0 {
					g.add("commit")
					g.nsnap++
				} else {
					g.add("abort")
				}
				g.add("get - m id %s", hx([]byte{'k', byte('1' + k)}))
				g.add("all - m")
				g.add("rev - m")
				g.add("inited - m")
			}
			emit("table init-done-then-disjoint-commit", true, g.ops)
			continue
		}
		if c%40 == 15 {
			// a compare-and-swap / compare-and-delete / no-op delete aimed at a key whose deletion a lagging
			// iterator has not been handed yet (the reconciler's late status write does exactly this) is
			// refused and its transaction COMMITTED: the deletion must still reach the iterator
			g.add("wtxn m")
			g.add("changes m")
			g.add("changes m")
			for i := 0; i < 3; i++ {
				g.add("ins m %s %d 0 - - 0 %d", hx([]byte{'k', byte('0' + i)}), i, i+1)
			}
			g.add("commit")
			g.nsnap++
			g.add("rtxn")
			g.nsnap++
			g.add("next 0 s%d -1", g.nsnap-1)
			g.add("next 1 s%d -1", g.nsnap-1)
			g.add("wtxn m")
			g.add("del m %s", hx([]byte("k0")))
			g.add("commit")
			g.nsnap++
			g.add("rtxn")
			g.nsnap++
			g.add("next 1 s%d -1", g.nsnap-1) // the other iterator is up to date: only iterator 0 lags
			g.add("glen - m")
			g.add("wtxn m")
			switch r.IntN(3) {
			case 0:
				g.add("cas m big %s 9 0 - - 0 9", hx([]byte("k0")))
			case 1:
				g.add("cas m cur %s 9 0 - - 0 9", hx([]byte("k0")))
				g.add("cad m big %s", hx([]byte("k0")))
			default:
				g.add("cad m big %s", hx([]byte("k0")))
				g.add("del m %s", hx([]byte("k0")))
				g.add("cas m big %s 9 0 - - 0 9", hx([]byte("k0")))
			}
			if r.IntN(2) == 0 {
				g.add("ins m %s 5 0 - - 0 5", hx([]byte("k5")))
			}
			g.add("commit")
			g.nsnap++
			g.add("glen - m")
			g.add("gc")
			g.add("glen - m")
			g.add("rtxn")
			g.nsnap++
			g.add("next 0 s%d -1", g.nsnap-1)
			g.add("next 1 s%d -1", g.nsnap-1)
			g.add("gcidle")
			g.add("glen - m")
			emit("table refused-write-on-retained-deletion", true, g.ops)
			continue
		}
		if c%40 == 35 {
			// the last change iterator is closed while deletions it was never handed are still retained
			// and BEFORE the collector runs; a deleted key is inserted again, a new iterator created, the
			// key deleted again (and once more through the other delete operations)
			g.add("wtxn m")
			g.add("changes m")
			for i := 0; i < 3; i++ {
				g.add("ins m %s %d 0 - - 0 %d", hx([]byte{'k', byte('0' + i)}), i, i+1)
			}
			g.add("commit")
			g.nsnap++
			g.add("rtxn")
			g.nsnap++
			g.add("next 0 s%d -1", g.nsnap-1)
			g.add("wtxn m")
			g.add("del m %s", hx([]byte("k0")))
			g.add("del m %s", hx([]byte("k1")))
			g.add("commit")
			g.nsnap++
			g.add("cclose 0")
			g.add("glen - m")
			g.add("wtxn m")
			g.add("ins m %s 10 0 - - 0 7", hx([]byte("k0")))
			if r.IntN(2) == 0 {
				g.add("ins m %s 11 0 - - 0 8", hx([]byte("k1")))
			}
			g.add("commit")
			g.nsnap++
			g.add("glen - m")
			g.add("wtxn m")
			g.add("changes m")
			g.add("commit")
			g.nsnap++
			g.add("wtxn m")
			switch r.IntN(3) {
			case 0:
				g.add("del m %s", hx([]byte("k0")))
			case 1:
				g.add("delall m")
			default:
				g.add("del m %s", hx([]byte("k0")))
				g.add("ins m %s 12 0 - - 0 9", hx([]byte("k0")))
				g.add("del m %s", hx([]byte("k0")))
			}
			g.add("commit")
			g.nsnap++
			g.add("rtxn")
			g.nsnap++
			g.add("next 1 s%d -1", g.nsnap-1)
			g.add("glen - m")
			g.add("gcidle")
			g.add("glen - m")
			g.add("all - m")
			emit("table reinsert-before-collection", true, g.ops)
			continue
		}
		if ck == 5 {
			// iterator closed while it still has unobserved deletions: nothing may stay
			// retained once the collector has handled the triggers the close produced
			nit := 1 + r.IntN(2)
			if c%40 == 25 {
				// iterators created and closed in turn: closing the OLDER of two open iterators and creating a
				// third one must not disturb the survivor; an iterator driven through a write transaction on
				// its own table that is then aborted still gets the later deletions; closing the last
				// iterator of a table whose initializer is pending leaves the initializer pending
				g.add("wtxn m")
				g.add("reginit m init0")
				g.add("changes m")
				g.add("changes m")
				for i := 0; i < 4; i++ {
					g.add("ins m %s %d 0 - - 0 %d", hx([]byte{'k', byte('0' + i)}), i, i+1)
				}
				g.add("commit")
				g.nsnap++
				g.add("rtxn")
				g.nsnap++
				g.add("next 0 s%d -1", g.nsnap-1)
				g.add("next 1 s%d -1", g.nsnap-1)
				g.add("cclose 0")
				g.add("wtxn m")
				g.add("changes m")
				g.add("commit")
				g.nsnap++
				g.add("rtxn")
				g.nsnap++
				g.add("next 2 s%d -1", g.nsnap-1)
				g.add("wtxn m")
				g.add("del m %s", hx([]byte("k0")))
				g.add("commit")
				g.nsnap++
				g.add("rtxn")
				g.nsnap++
				g.add("next 2 s%d -1", g.nsnap-1)
				g.add("gcidle")
				g.add("glen - m")
				g.add("next 1 s%d -1", g.nsnap-1)
				g.add("cclose 2")
				g.add("gcidle")
				// the survivor, driven through a write transaction on its own table that is aborted (something
				// was committed since its last refresh, so that Next does look at the transaction)
				g.add("wtxn m")
				g.add("ins m %s 33 0 - - 0 4", hx([]byte("k3")))
				g.add("commit")
				g.nsnap++
				g.add("wtxn m")
				g.add("ins m %s 9 0 - - 0 9", hx([]byte("k9")))
				if r.IntN(2) == 0 {
					g.add("ins m %s 8 0 - - 0 8", hx([]byte("k8")))
				}
				g.add("next 1 w -1")
				g.add("abort")
				g.add("wtxn m")
				g.add("del m %s", hx([]byte("k1")))
				g.add("commit")
				g.nsnap++
				g.add("gc") // a collection run before the survivor has been handed the deletion keeps it
				g.add("glen - m")
				g.add("rtxn")
				g.nsnap++
				g.add("next 1 s%d -1", g.nsnap-1)
				g.add("next 1 s%d -1", g.nsnap-1)
				// an iterator created in a transaction that is ABORTED is closed while the survivor is the only
				// registered one: the survivor stays registered
				g.add("wtxn m")
				g.add("changes m")
				g.add("abort")
				g.add("cclose 3")
				g.add("wtxn m")
				g.add("del m %s", hx([]byte("k3")))
				g.add("commit")
				g.nsnap++
				g.add("glen - m")
				g.add("rtxn")
				g.nsnap++
				g.add("next 1 s%d -1", g.nsnap-1)
				// Close() of an iterator, from another goroutine, BEFORE the transaction that created it (and
				// wrote to the table before) commits: once both are through nothing is registered for it
				g.add("wtxn m")
				g.add("ins m %s 7 0 - - 0 7", hx([]byte("k7")))
				g.add("changes m")
				g.add("cclosepark 4")
				g.add("commit")
				g.nsnap++
				g.add("ccloseresume")
				// one more deletion stays unobserved while the last iterator is closed
				g.add("wtxn m")
				g.add("del m %s", hx([]byte("k2")))
				g.add("commit")
				g.nsnap++
				g.add("cclose 1")
				g.add("gcidle")
				g.add("glen - m")
				g.add("rtxn")
				g.nsnap++
				g.add("inited s%d m", g.nsnap-1)
				g.add("gcidle")
				g.add("inited - m")
				g.add("wtxn m")
				g.add("reginit m init1")
				g.add("reginit m init2")
				g.add("commit")
				g.nsnap++
				g.add("rtxn")
				g.nsnap++
				hs := fmt.Sprintf("s%d", g.nsnap-1)
				g.add("inited %s m", hs)
				// the most recently registered one is marked done and another is registered, in a transaction
				// that is aborted / committed; the retained snapshot and the committed state keep their lists
				g.add("wtxn m")
				g.add("initdone 2")
				g.add("reginit m init3")
				g.add("inited w m")
				g.add("abort")
				g.add("inited - m")
				g.add("inited %s m", hs)
				g.add("wtxn m")
				g.add("initdone 2")
				g.add("commit")
				g.nsnap++
				g.add("wtxn m")
				g.add("reginit m init4")
				if r.IntN(2) == 0 {
					g.add("abort")
				} else {
					g.add("commit")
					g.nsnap++
				}
				g.add("inited %s m", hs)
				g.add("inited - m")
				g.add("wtxn m")
				g.add("initdone 0")
				g.add("initdone 1")
				g.add("commit")
				g.nsnap++
				g.add("inited - m")
				g.add("inited %s m", hs)
				g.add("glen - m")
				emit("table iterators-created-and-closed", true, g.ops)
				continue
			}
			if c%40 == 5 {
				// Close() of one iterator overlapping a transaction that registers another one: the
				// registration committed meanwhile survives, later deletions are retained for it
				g.add("wtxn m")
				g.add("changes m")
				for i := 0; i < 3; i++ {
					g.add("ins m %s %d 0 - - 0 %d", hx([]byte{'k', byte('0' + i)}), i, i+1)
				}
				g.add("commit")
				g.nsnap++
				g.add("rtxn")
				g.nsnap++
				g.add("next 0 s%d -1", g.nsnap-1)
				g.add("wtxn m")
				g.add("changes m")
				if r.IntN(2) == 0 {
					g.add("ins m %s 9 0 - - 0 9", hx([]byte("k9")))
				}
				g.add("cclosepark 0")
				g.add("commit")
				g.nsnap++
				g.add("ccloseresume")
				g.add("wtxn m")
				g.add("del m %s", hx([]byte("k0")))
				g.add("del m %s", hx([]byte("k1")))
				g.add("commit")
				g.nsnap++
				g.add("glen - m")
				g.add("rtxn")
				g.nsnap++
				g.add("next 1 s%d -1", g.nsnap-1)
				g.add("gcidle")
				g.add("glen - m")
				g.add("cclose 1")
				g.add("gcidle")
				g.add("glen - m")
				emit("table close-overlapping-registration", true, g.ops)
				continue
			}
			if c%20 == 15 {
				// Changes() in a transaction that is then aborted registers nothing: later deletions
				// are not retained for it, and its iterator never sees them
				g.add("wtxn ma")
				g.add("ins m %s 1 0 - - 0 1", hx([]byte("k0")))
				g.add("ins a %s 1 0 - - 0 1", hx([]byte("k0")))
				g.add("commit")
				g.nsnap++
				g.add("wtxn ma")
				g.add("changes m")
				nab := 1
				if r.IntN(2) == 0 {
					g.add("changes a")
					nab = 2
				}
				g.add("abort")
				g.add("wtxn ma")
				g.add("del m %s", hx([]byte("k0")))
				g.add("del a %s", hx([]byte("k0")))
				g.add("commit")
				g.nsnap++
				g.add("gcidle")
				g.add("glen - m")
				g.add("glen - a")
				g.add("rtxn")
				g.nsnap++
				for i := 0; i < nab; i++ {
					g.add("next %d s%d -1", i, g.nsnap-1)
				}
				g.add("gcidle")
				g.add("glen - m")
				g.add("glen - a")
				emit("table changes-in-aborted-txn", true, g.ops)
				continue
			}
			g.add("wtxn m")
			for i := 0; i < nit; i++ {
				g.add("changes m")
			}
			for i := 0; i < 4; i++ {
				g.add("ins m %s %d 0 - - 0 %d", hx([]byte{'d', byte(i)}), i, i+1)
			}
			g.add("commit")
			g.nsnap++
			if r.IntN(2) == 0 {
				g.add("rtxn")
				g.nsnap++
				g.add("next 0 s%d -1", g.nsnap-1)
				if r.IntN(2) == 0 {
					g.add("gcidle")
				}
			}
			g.add("wtxn m")
			g.add("del m %s", hx([]byte{'d', byte(r.IntN(4))}))
			g.add("del m %s", hx([]byte{'d', byte(r.IntN(4))}))
			g.add("commit")
			g.nsnap++
			if nit == 2 {
				g.add("rtxn")
				g.nsnap++
				g.add("next 1 s%d -1", g.nsnap-1)
				g.add("gcidle")
				g.add("glen - m")
				g.add("cclose 1")
				g.add("gcidle")
				g.add("glen - m")
			}
			g.add("ccloserace 0")
			g.add("gcidle")
			g.add("glen - m")
			g.add("gcidle")
			emit("table close-with-unobserved-deletions", true, g.ops)
			continue
		}
		if ck == 9 {
			// long quiet period: nodes of the LPM trie (and of the radix trees) that are not
			// written for ~256 transactions while an early snapshot is retained, then written
			// through one after the other (transaction-id stamps must not wrap or be reused)
			g.add("wtxn m")
			for k := 0; k < 18; k++ {
				g.add("ins m %s %d 0 - %s/8 0 %d", hx([]byte{'q', byte(k)}), k, hx([]byte{byte(0xc0 + k), 0}), k+1)
			}
			g.add("commit")
			g.nsnap++
			g.add("rtxn")
			g.nsnap++
			g.add("prefix s1 m lpm x0000/0")
			g.add("all s1 m")
			quiet := 240 + r.IntN(4) // the probes below run with LPM transaction ids quiet+2 .. quiet+15, around 257
			for i := 0; i < quiet; i++ {
				g.add("wtxn m")
				g.add("ins m x7a %d 0 - %s/16 0 50", i, hx([]byte{0x0a, byte(i)}))
				g.add("commit")
				g.nsnap++
			}
			for k := 0; k < 18; k++ {
				g.add("wtxn m")
				// a more specific prefix below the k-th quiet node: the write goes through that node
				g.add("ins m %s %d 0 - %s/16 0 %d", hx([]byte{'p', byte(k)}), k, hx([]byte{byte(0xc0 + k), 0x80}), 100+k)
				if k%4 == 3 {
					g.add("prefix s1 m lpm x0000/0")
					g.add("abort")
				} else {
					g.add("commit")
					g.nsnap++
				}
				g.add("prefix s1 m lpm x0000/0")
				g.add("list s1 m lpm %s/16", hx([]byte{byte(0xc0 + k), 0x80}))
				g.add("all s1 m")
			}
			g.add("rtxn")
			g.nsnap++
			g.add("prefix s%d m lpm x0000/0", g.nsnap-1)
			emit("table long-quiet", true, g.ops)
			continue
		}
		if ck == 1 {
			// collector vs. an unrelated open writer: table m has collectable deletions, table a
			// has deletions its iterator has not seen; a transaction on a alone is open
			g.add("wtxn ma")
			g.add("changes m")
			g.add("changes a")
			for i := 0; i < 3; i++ {
				g.add("ins m %s %d 0 - - 0 %d", hx([]byte{'g', byte(i)}), i, i+1)
				g.add("ins a %s %d 0 - - 0 %d", hx([]byte{'h', byte(i)}), i, i+1)
			}
			g.add("commit")
			g.nsnap++
			g.add("rtxn")
			g.nsnap++
			g.add("next 0 s%d -1", g.nsnap-1)
			g.add("next 1 s%d -1", g.nsnap-1)
			g.add("wtxn ma")
			g.add("del m %s", hx([]byte{'g', byte(r.IntN(3))}))
			g.add("del a %s", hx([]byte{'h', byte(r.IntN(3))}))
			g.add("commit")
			g.nsnap++
			g.add("rtxn")
			g.nsnap++
			g.add("next 0 s%d -1", g.nsnap-1)
			g.add("next 0 s%d -1", g.nsnap-1)
			g.add("wtxn a")
			g.add("ins a %s 9 0 - - 0 9", hx([]byte{'h', 9}))
			// a second writer commits to m meanwhile: the iterator of m driven through THIS transaction
			// (which does not hold m) keeps seeing the state the transaction started from
			if r.IntN(2) == 0 {
				g.add("side m %s 8 0 - - 0 8", hx([]byte{'g', 8}))
			}
			g.add("next 0 w -1")
			g.add("all w m")
			g.add("gcwhile")
			g.add("glen - m")
			g.add("glen - a")
			g.add("commit")
			g.nsnap++
			g.add("rtxn")
			g.nsnap++
			g.add("next 1 s%d -1", g.nsnap-1)
			g.add("gc")
			g.add("glen - m")
			g.add("glen - a")
			for sn := 0; sn < g.nsnap; sn++ {
				g.sweep(fmt.Sprintf("s%d", sn), 3)
			}
			emit("table collector-vs-writer", true, g.ops)
			continue
		}
		if ck == 3 {
			// restructuring case at table level: primary keys a, abc, abd (+ x outside): deleting
			// "a" pulls the inner node below it up one level; further writes below it in the SAME
			// transaction must still close the watch channels handed out by the snapshot before
			g.add("wtxn m")
			ord := 1
			put := func(id string, val int) {
				g.add("ins m %s %d 0 - - 0 %d", hx([]byte(id)), val, ord)
				ord++
			}
			put("x", 1)
			put("a", 2)
			put("abc", 3)
			if r.IntN(4) != 0 {
				put("abd", 4)
			}
			g.add("commit")
			g.nsnap++
			for round := 0; round < 3; round++ {
				g.add("rtxn")
				g.nsnap++
				h := fmt.Sprintf("s%d", g.nsnap-1)
				for _, q := range []string{"a", "ab", "abe", "abc", "abd"} {
					g.add("prefixw %s m id %s", h, hx([]byte(q)))
					g.add("getw %s m id %s", h, hx([]byte(q)))
				}
				g.add("lbw %s m id %s", h, hx([]byte("ab")))
				g.add("allw %s m", h)
				g.add("wtxn m")
				g.add("del m %s", hx([]byte("a")))
				for i := 1 + r.IntN(3); i > 0; i-- {
					switch r.IntN(5) {
					case 0:
						put("abe", 10+i)
					case 1:
						g.add("del m %s", hx([]byte("abd")))
					case 2:
						put("abc", 20+i)
					case 3:
						g.add("del m %s", hx([]byte("abc")))
					case 4:
						put("a", 30+i)
					}
				}
				g.add("commit")
				g.nsnap++
				g.add("wtxn m")
				put("a", 2)
				put("abc", 3)
				put("abd", 4)
				g.add("del m %s", hx([]byte("abe")))
				g.add("commit")
				g.nsnap++
			}
			// a key whose node has exactly ONE child ("p" above "pq"), first touched by the transaction
			// (update / failed CAS / delete of a sibling) and then deleted in the same transaction:
			// the child is pulled up and must be copied, not edited where older snapshots see it
			g.add("wtxn m")
			put("p", 60)
			put("pq", 61)
			twoKids := r.IntN(2) == 0
			if twoKids {
				put("pr", 62)
			}
			g.add("commit")
			g.nsnap++
			g.add("rtxn")
			g.nsnap++
			{
				h := fmt.Sprintf("s%d", g.nsnap-1)
				ask := func(hh string) {
					g.add("get %s m id %s", hh, hx([]byte("pq")))
					g.add("prefix %s m id %s", hh, hx([]byte("p")))
					g.add("lb %s m id %s", hh, hx([]byte("pq")))
					g.add("list %s m id %s", hh, hx([]byte("pq")))
				}
				ask(h)
				g.add("wtxn m")
				switch r.IntN(3) {
				case 0:
					put("p", 63)
				case 1:
					g.add("cas m big %s 1 0 - - 0 %d", hx([]byte("p")), ord)
				case 2:
					if twoKids {
						g.add("del m %s", hx([]byte("pr")))
					} else {
						put("p", 64)
					}
				}
				if twoKids && r.IntN(2) == 0 {
					g.add("del m %s", hx([]byte("pr")))
				}
				g.add("del m %s", hx([]byte("p")))
				ask(h)
				if r.IntN(2) == 0 {
					g.add("abort")
				} else {
					g.add("commit")
					g.nsnap++
				}
				ask(h)
				g.add("rtxn")
				g.nsnap++
				ask(fmt.Sprintf("s%d", g.nsnap-1))
			}
			// a key inserted that ends INSIDE the compressed prefix of an inner node of the primary
			// index: prefix watchers whose prefix ends inside that edge hold the node's channel
			g.add("wtxn m")
			put("wxyz1", 5)
			put("wxyz2", 6)
			g.add("commit")
			g.nsnap++
			g.add("rtxn")
			g.nsnap++
			{
				h := fmt.Sprintf("s%d", g.nsnap-1)
				for _, q := range []string{"w", "wx", "wxy", "wxyz"} {
					g.add("prefixw %s m id %s", h, hx([]byte(q)))
					g.add("getw %s m id %s", h, hx([]byte(q)))
				}
				g.add("wtxn m")
				put([]string{"w", "wx", "wxy"}[r.IntN(3)], 7)
				g.add("commit")
				g.nsnap++
			}
			// GetWatch / ListWatch through the non-unique tag index: a new object with the same tag and a
			// SMALLER primary key changes the first match without touching the object found earlier
			g.add("wtxn m")
			g.add("ins m %s 1 0 x7a - 0 %d", hx([]byte("t5")), ord)
			ord++
			g.add("ins m %s 2 0 x7a - 0 %d", hx([]byte("t9")), ord)
			ord++
			g.add("commit")
			g.nsnap++
			g.add("rtxn")
			g.nsnap++
			{
				h := fmt.Sprintf("s%d", g.nsnap-1)
				g.add("getw %s m tags x7a", h)
				g.add("listw %s m tags x7a", h)
				g.add("wtxn m")
				g.add("ins m %s 3 0 x7a - 0 %d", hx([]byte([]string{"t1", "t7", "t95"}[r.IntN(3)])), ord)
				ord++
				g.add("commit")
				g.nsnap++
			}
			// a bucket of several objects under one prefix of the non-unique LPM index: removing one
			// from the middle in a transaction that is then aborted (or committed) must not disturb
			// what other snapshots see
			g.add("wtxn m")
			for i := 0; i < 4; i++ {
				g.add("ins m %s %d 0 - x0a00/8 0 %d", hx([]byte{'l', byte('1' + i)}), 40+i, ord)
				ord++
			}
			g.add("commit")
			g.nsnap++
			g.add("rtxn")
			g.nsnap++
			{
				h := fmt.Sprintf("s%d", g.nsnap-1)
				g.add("list %s m lpm x0a00/8", h)
				// a fifth object whose primary key sorts INSIDE the bucket (the bucket's slice has room for it)
				g.add("wtxn m")
				g.add("ins m %s 49 0 - x0a00/8 0 %d", hx([]byte("l25")), ord)
				ord++
				g.add("list %s m lpm x0a00/8", h)
				g.add("prefix %s m lpm x0000/0", h)
				if r.IntN(2) == 0 {
					g.add("abort")
				} else {
					g.add("commit")
					g.nsnap++
				}
				g.add("list %s m lpm x0a00/8", h)
				g.add("list - m lpm x0a00/8")
				g.add("wtxn m")
				g.add("del m %s", hx([]byte{'l', byte('2' + r.IntN(2))}))
				g.add("list %s m lpm x0a00/8", h)
				g.add("prefix - m lpm x0000/0")
				if r.IntN(2) == 0 {
					g.add("abort")
				} else {
					g.add("commit")
					g.nsnap++
				}
				g.add("list %s m lpm x0a00/8", h)
				g.add("prefix %s m lpm x0000/0", h)
			}
			// the object with the LARGEST primary key leaves the bucket (delete, or a key-changing update),
			// then one with a still larger primary key enters it — in one transaction or in two, committed
			// or aborted — while older snapshots keep listing the bucket
			for round := 0; round < 2; round++ {
				g.add("rtxn")
				g.nsnap++
				h := fmt.Sprintf("s%d", g.nsnap-1)
				g.add("list %s m lpm x0a00/8", h)
				last := []string{"l4", "l8"}[round]
				next := []string{"l8", "l9"}[round]
				g.add("wtxn m")
				if r.IntN(3) == 0 {
					g.add("ins m %s %d 0 - x0b00/8 0 %d", hx([]byte(last)), 60+round, ord) // moves to another bucket
					ord++
				} else {
					g.add("del m %s", hx([]byte(last)))
				}
				g.add("list %s m lpm x0a00/8", h)
				two := r.IntN(2) == 0
				if two {
					g.add("commit")
					g.nsnap++
					g.add("rtxn")
					g.nsnap++
					g.add("list s%d m lpm x0a00/8", g.nsnap-1)
					g.add("wtxn m")
				}
				g.add("ins m %s %d 0 - x0a00/8 0 %d", hx([]byte(next)), 62+round, ord)
				ord++
				g.add("list %s m lpm x0a00/8", h)
				g.add("prefix %s m lpm x0000/0", h)
				g.add("lb %s m lpm x0a00/8", h)
				if two {
					g.add("list s%d m lpm x0a00/8", g.nsnap-1)
				}
				if r.IntN(3) == 0 && !(round == 0) {
					g.add("abort")
				} else {
					g.add("commit")
					g.nsnap++
				}
				g.add("list %s m lpm x0a00/8", h)
				g.add("list - m lpm x0a00/8")
				if two {
					g.add("list s%d m lpm x0a00/8", g.nsnap-2)
				}
			}
			// the LAST child (branch byte 0xff) of a small index node removed, in the primary index and
			// in the tag index, then looked up again through every query kind
			g.add("wtxn m")
			g.add("ins m %s 80 0 xff - 0 %d", hx([]byte("f\xff")), ord)
			ord++
			g.add("ins m %s 81 0 x61 - 0 %d", hx([]byte("fa")), ord)
			ord++
			g.add("ins m %s 82 0 x62 - 0 %d", hx([]byte("fb")), ord)
			ord++
			g.add("commit")
			g.nsnap++
			g.add("wtxn m")
			g.add("del m %s", hx([]byte("f\xff")))
			for _, hh := range []string{"w", "-"} {
				if hh == "-" {
					g.add("commit")
					g.nsnap++
					g.add("rtxn")
					g.nsnap++
					hh = fmt.Sprintf("s%d", g.nsnap-1)
				}
				g.add("get %s m id %s", hh, hx([]byte("f\xff")))
				g.add("prefix %s m id %s", hh, hx([]byte("f\xff")))
				g.add("lb %s m id %s", hh, hx([]byte("f\xff")))
				g.add("get %s m tags xff", hh)
				g.add("list %s m tags xff", hh)
				g.add("prefix %s m tags xff", hh)
				g.add("lb %s m tags xff", hh)
			}
			// a write transaction over NO tables (legal: locks nothing) that spans another
			// transaction's commit: its own commit / abort changes nothing anybody can see
			for k := 0; k < 2; k++ {
				g.add("rtxn")
				g.nsnap++
				h := fmt.Sprintf("s%d", g.nsnap-1)
				g.add("rev %s m", h)
				g.add("byrev %s m 0", h)
				g.add("wtxn -")
				g.add("side m %s %d 0 - - 0 %d", hx([]byte{'e', byte('0' + k)}), 70+k, ord)
				ord++
				g.add("rev w m")
				g.add("rev %s m", h)
				if k == 0 || r.IntN(3) != 0 {
					g.add("commit")
					g.nsnap++
				} else {
					g.add("abort")
				}
				g.add("rev %s m", h)
				g.add("byrev %s m 0", h)
				g.add("get %s m id %s", h, hx([]byte{'e', byte('0' + k)}))
				g.add("rtxn")
				g.nsnap++
				g.add("rev s%d m", g.nsnap-1)
				g.add("get s%d m id %s", g.nsnap-1, hx([]byte{'e', byte('0' + k)}))
			}
			// primary keys nested 36 levels deep (each a prefix of the next): deleting the deepest ones walks a
			// path longer than the preallocated 32 entries
			g.add("wtxn m")
			for i := 1; i <= 36; i++ {
				g.add("ins m %s %d 0 - - 0 %d", hx([]byte(strings.Repeat("n", i))), i, ord)
				ord++
			}
			g.add("commit")
			g.nsnap++
			g.add("rtxn")
			g.nsnap++
			{
				h := fmt.Sprintf("s%d", g.nsnap-1)
				g.add("wtxn m")
				for _, d := range []int{36, 34, 33, 20} {
					g.add("del m %s", hx([]byte(strings.Repeat("n", d))))
					g.add("get w m id %s", hx([]byte(strings.Repeat("n", d))))
				}
				g.add("num w m")
				if r.IntN(3) == 0 {
					g.add("abort")
				} else {
					g.add("commit")
					g.nsnap++
				}
				g.add("rtxn")
				g.nsnap++
				g.add("prefix s%d m id %s", g.nsnap-1, hx([]byte(strings.Repeat("n", 30))))
				g.add("get %s m id %s", h, hx([]byte(strings.Repeat("n", 36))))
				g.add("wtxn m")
				g.add("delall m")
				g.add("commit")
				g.nsnap++
			}
			// forty nested prefixes of up to 40 bits in the non-unique prefix index (each one bit longer,
			// diverging from the all-zero address), lower bounds from the all-zero address
			g.add("wtxn m")
			for k := 0; k < 40; k++ {
				d := make([]byte, 8)
				d[k/8] = 0x80 >> uint(k%8)
				g.add("ins m %s %d 0 - x%s/%d 0 %d", hx([]byte(fmt.Sprintf("z%02d", k))), k, hex.EncodeToString(d), k+1, ord)
				ord++
			}
			g.add("commit")
			g.nsnap++
			g.add("lb - m lpm x0000000000000000/64")
			g.add("lb - m lpm x0000000000000000/0")
			g.add("prefix - m lpm x0000000000000000/0")
			g.add("wtxn m")
			g.add("lb w m lpm x0000000000000000/64")
			g.add("del m %s", hx([]byte("z39")))
			g.add("lb w m lpm x0000000000000000/64")
			g.add("delall m")
			g.add("commit")
			g.nsnap++
			// every write operation, with every kind of guard, on a table the transaction does NOT hold
			// (existing and missing objects): refused as such, nothing changes
			g.add("wtxn a")
			for _, id := range []string{"fa", "zz"} {
				g.add("ins m %s 1 0 - - 0 %d", hx([]byte(id)), ord)
				g.add("mod m %s 2 0 - - 0 %d", hx([]byte(id)), ord)
				for _, spec := range []string{"cur", "cur-1", "cur+1", "0", "big"} {
					g.add("cas m %s %s 3 0 - - 0 %d", spec, hx([]byte(id)), ord)
					g.add("cad m %s %s", spec, hx([]byte(id)))
				}
				g.add("del m %s", hx([]byte(id)))
				g.add("get w m id %s", hx([]byte(id)))
			}
			g.add("delall m")
			g.add("num w m")
			if r.IntN(2) == 0 {
				g.add("abort")
			} else {
				g.add("commit")
				g.nsnap++
			}
			// a LARGE transaction: more than 64 objects replaced (or removed) at once; every per-key and
			// per-prefix channel handed out before must be closed by its commit
			g.add("wtxn m")
			for i := 0; i < 70; i++ {
				g.add("ins m %s %d 0 x62 - 0 %d", hx([]byte(fmt.Sprintf("q%02d", i))), i, ord)
				ord++
			}
			g.add("commit")
			g.nsnap++
			g.add("rtxn")
			g.nsnap++
			{
				h := fmt.Sprintf("s%d", g.nsnap-1)
				for _, i := range []int{0, 7, 33, 68, 69} {
					g.add("getw %s m id %s", h, hx([]byte(fmt.Sprintf("q%02d", i))))
				}
				g.add("prefixw %s m id %s", h, hx([]byte("q3")))
				g.add("prefixw %s m id %s", h, hx([]byte("q")))
				g.add("listw %s m tags x62", h)
				g.add("getw %s m id %s", h, hx([]byte("q99")))
				g.add("wtxn m")
				if r.IntN(2) == 0 {
					for i := 0; i < 70; i++ {
						g.add("ins m %s %d 0 x62 - 0 %d", hx([]byte(fmt.Sprintf("q%02d", i))), 100+i, ord)
						ord++
					}
				} else {
					for i := 0; i < 70; i++ {
						g.add("del m %s", hx([]byte(fmt.Sprintf("q%02d", i))))
					}
				}
				g.add("commit")
				g.nsnap++
				g.add("closed")
			}
			// inside ONE transaction: a write, an iterating read, Modify (with merge) of several objects and
			// then DeleteAll (or an All + Delete loop is what DeleteAll does): nothing is left behind
			g.add("wtxn m")
			for i, id := range []string{"da", "db", "dc", "dd"} {
				put(id, 90+i)
			}
			g.add("commit")
			g.nsnap++
			g.add("wtxn m")
			put("de", 95)
			switch r.IntN(3) {
			case 0:
				g.add("all w m")
			case 1:
				g.add("prefix w m id %s", hx([]byte("d")))
			case 2:
				g.add("lb w m id %s", hx([]byte("d")))
			}
			for i, id := range []string{"da", "db", "dc", "dd"} {
				if r.IntN(4) != 0 {
					g.add("mod m %s %d 0 - - 0 %d", hx([]byte(id)), 190+i, ord)
					ord++
				}
			}
			g.add("delall m")
			g.add("all w m")
			g.add("num w m")
			if r.IntN(3) == 0 {
				g.add("abort")
			} else {
				g.add("commit")
				g.nsnap++
			}
			g.add("rtxn")
			g.nsnap++
			g.add("all s%d m", g.nsnap-1)
			g.add("num s%d m", g.nsnap-1)
			for sn := 0; sn < g.nsnap; sn++ {
				g.sweep(fmt.Sprintf("s%d", sn), 3)
			}
			emit("table restructure", true, g.ops)
			continue
		}
		if ck == 7 {
			// threshold walker at table level: objects sharing a primary-key stem and one tag,
			// removed one per transaction across the radix node size boundaries, with watches
			// on the affected index nodes taken from the snapshot just before
			top := []int{52, 19, 7}[r.IntN(3)]
			g.add("wtxn m")
			var ids []string
			withStem := r.IntN(3) != 0
			if withStem {
				// the stem itself is a key (leaf inside the inner node) and a key outside
				// the stem keeps that node off the root
				g.add("ins m %s 777 0 x74 - 0 900", hx([]byte{'k'}))
				g.add("ins m %s 778 0 - - 0 901", hx([]byte{'z'}))
			}
			for i := 0; i < top; i++ {
				id := string([]byte{'k', byte(3*i + 1)})
				ids = append(ids, id)
				g.add("ins m %s %d 0 x74 - 0 %d", hx([]byte(id)), i, i+1)
			}
			g.add("commit")
			g.nsnap++
			r.Shuffle(len(ids), func(i, j int) { ids[i], ids[j] = ids[j], ids[i] })
			for i := 0; i < 7 && i < len(ids); i++ {
				g.add("rtxn")
				g.nsnap++
				h := fmt.Sprintf("s%d", g.nsnap-1)
				g.add("prefixw %s m id x6b", h)
				g.add("listw %s m tags x74", h)
				g.add("getw %s m tags x74", h)
				g.add("prefixw %s m tags x74", h)
				g.add("lbw %s m id x6b", h)
				g.add("allw %s m", h)
				g.add("getw %s m id %s", h, hx([]byte(ids[i])))
				g.add("getw %s m id x6bfe", h)
				g.add("getw %s m id x6b", h)
				g.add("wtxn m")
				if i%3 == 2 {
					g.add("ins m %s %d 0 - - 0 %d", hx([]byte(ids[i])), 900+i, 60+i) // key-changing update: tag removed
				} else {
					g.add("del m %s", hx([]byte(ids[i])))
				}
				g.add("commit")
				g.nsnap++
			}
			if withStem {
				// write operations on the stem key itself after the node below it was rebuilt
				g.add("wtxn m")
				g.add("mod m %s 5 0 x74 - 0 900", hx([]byte{'k'}))
				g.add("get w m id %s", hx([]byte{'k'}))
				g.add("commit")
				g.nsnap++
				// a key with exactly 16 one-byte extensions: a CompareAndSwap on a missing 17th
				// extension is rejected, but inserts and reverts (17 -> 16 children) on the way
				g.add("wtxn m")
				g.add("ins m %s 1 0 - - 0 950", hx([]byte{'j'}))
				for i := 0; i < 16; i++ {
					g.add("ins m %s %d 0 - - 0 %d", hx([]byte{'j', byte(5*i + 3)}), i, 951+i)
				}
				g.add("commit")
				g.nsnap++
				g.add("wtxn m")
				g.add("cas m big %s 7 0 - - 0 990", hx([]byte{'j', 0xf0}))
				g.add("get w m id %s", hx([]byte{'j'}))
				g.add("mod m %s 3 0 - - 0 950", hx([]byte{'j'}))
				g.add("cad m big %s", hx([]byte{'j', 0xf1}))
				g.add("all w m")
				g.add("commit")
				g.nsnap++
			}
			for s := 0; s < g.nsnap; s++ {
				g.sweep(fmt.Sprintf("s%d", s), 4)
			}
			emit(fmt.Sprintf("table walker top=%d", top), true, g.ops)
			continue
		}
		withIters := c%2 == 0
		withInit := c%3 == 0
		openIters := []int{}
		ntx := 2 + r.IntN(maxTx)
		for t := 0; t < ntx; t++ {
			tabs := []string{"m", "m", "ma", "a", "ma"}[r.IntN(5)]
			g.add("wtxn %s", tabs)
			mustCommit := false
			var pendingDones []int
			var createdHere []int // change iterators created in this transaction
			if withIters && r.IntN(4) == 0 && len(openIters) < 3 {
				tn := string(tabs[0])
				g.add("changes %s", tn)
				openIters = append(openIters, g.niter)
				createdHere = append(createdHere, g.niter)
				g.niter++
				mustCommit = true
			}
			if withInit && r.IntN(3) == 0 {
				tn := string(tabs[r.IntN(len(tabs))])
				g.add("reginit %s init%d", tn, g.ndone)
				pendingDones = append(pendingDones, g.ndone)
				g.ndone++
			}
			for i := r.IntN(maxOps + 1); i > 0; i-- {
				tn := string(tabs[r.IntN(len(tabs))])
				if r.IntN(15) == 0 {
					tn = []string{"m", "a"}[r.IntN(2)] // possibly a table the txn does not hold
				}
				specs := []string{"cur", "cur", "cur-1", "cur+1", "0", "big"}
				switch x := r.IntN(100); {
				case x < 30:
					g.add("ins %s %s", tn, g.obj(tn))
				case x < 34:
					g.add("insw %s %s", tn, g.obj(tn))
				case x < 40:
					g.add("mod %s %s", tn, g.obj(tn))
				case x < 50:
					g.add("cas %s %s %s", tn, specs[r.IntN(len(specs))], g.obj(tn))
				case x < 62:
					did := g.id()
					g.add("del %s %s", tn, hx([]byte(did)))
					if r.IntN(3) == 0 {
						// the deleted object must be gone for point and prefix queries through the id index too
						g.add("get w %s id %s", tn, hx([]byte(did)))
						g.add("prefix w %s id %s", tn, hx([]byte(did)))
					}
				case x < 68:
					g.add("cad %s %s %s", tn, specs[r.IntN(len(specs))], hx([]byte(g.id())))
				case x < 70:
					g.add("delall %s", tn)
				case x < 90:
					g.query("w")
				case x < 92:
					if g.nsnap > 0 {
						g.query(fmt.Sprintf("s%d", r.IntN(g.nsnap)))
					}
				case x < 93 && (tabs == "m" || tabs == "a") && r.IntN(2) == 0:
					// a second write transaction (on the other table) attempts a write to the table THIS one
					// holds: refused; what this transaction wrote so far is still there
					g.add("sidebad %s %s", tabs, g.obj(tabs))
					g.add("all w %s", tabs)
					g.add("num w %s", tabs)
				case x < 93:
					// a second write transaction commits to a table this one does not hold; this
					// transaction's view of that table (queries, change iterators) stays frozen
					if tabs == "m" || tabs == "a" {
						other := map[string]string{"m": "a", "a": "m"}[tabs]
						g.add("side %s %s", other, g.obj(other))
						g.add("all w %s", other)
						g.add("rev w %s", other)
						g.add("num w %s", other)
						for _, ci := range openIters {
							if r.IntN(2) == 0 {
								g.add("next %d w %d", ci, []int{-1, -1, 0, 1}[r.IntN(4)])
							}
						}
					}
				case x < 96:
					if withInit && len(g.liveDones) > 0 {
						g.add("initdone %d", g.liveDones[r.IntN(len(g.liveDones))])
					}
				case x < 97:
					g.add("inited w %s", tn)
				case x < 98:
					// a change iterator requested on a table this transaction does not hold
					if tabs == "m" || tabs == "a" {
						g.add("changes %s", map[string]string{"m": "a", "a": "m"}[tabs])
					} else {
						g.add("inited w %s", tn)
					}
				case x < 100 && withIters && len(openIters) < 3 && strings.Contains(tabs, tn):
					// an iterator created in the middle of a transaction, after some of its writes,
					// and asked for changes through that very transaction
					if r.IntN(2) == 0 {
						g.add("del %s %s", tn, hx([]byte(g.id())))
					}
					g.add("changes %s", tn)
					if r.IntN(2) == 0 {
						g.add("next %d w %d", g.niter, []int{-1, -1, 0, 1}[r.IntN(4)])
					}
					openIters = append(openIters, g.niter)
					createdHere = append(createdHere, g.niter)
					g.niter++
					mustCommit = true
				default:
					if len(openIters) > 0 {
						g.add("next %d w %d", openIters[r.IntN(len(openIters))], []int{-1, -1, 0, 1, 2}[r.IntN(5)])
					}
				}
			}
			if len(createdHere) > 0 && r.IntN(6) == 0 {
				// the creating transaction is aborted: the iterators track nothing (N3) and are only
				// closed; closing them must not leave anything behind (the table stays usable)
				g.add("abort")
				for _, ci := range createdHere {
					for k, x := range openIters {
						if x == ci {
							openIters = append(openIters[:k], openIters[k+1:]...)
							break
						}
					}
					g.add("cclose %d", ci)
				}
			} else if mustCommit || r.IntN(4) != 0 {
				g.add("commit")
				g.nsnap++
				g.liveDones = append(g.liveDones, pendingDones...)
			} else {
				g.add("abort")
			}
			// a write through the finished transaction
			if r.IntN(10) == 0 {
				g.add("ins m %s", g.obj("m"))
			}
			g.add("rtxn")
			g.nsnap++
			fresh := fmt.Sprintf("s%d", g.nsnap-1)
			g.sweep(fresh, 3)
			nq := 1 + r.IntN(4)
			if g.dense {
				nq = 5 + r.IntN(8)
			}
			for i := nq; i > 0; i-- {
				g.query(fresh)
			}
			g.add("inited %s m", fresh)
			if r.IntN(3) == 0 && len(g.ids) > 1 {
				// a query whose sequence is iterated only after OTHER queries on the same snapshot / index
				ix := []string{"id", "id", "u", "tags"}[r.IntN(4)]
				qk := func() string {
					id := g.ids[r.IntN(len(g.ids))]
					switch ix {
					case "u":
						return hx([]byte(fmt.Sprintf("%x:%d", id, r.IntN(2))))
					case "tags":
						return hx([]byte{"xt"[r.IntN(2)]})
					}
					return hx([]byte(id))
				}
				kind := []string{"klist", "klist", "kprefix", "klb"}[r.IntN(4)]
				g.add("%s %s m %s %s", kind, fresh, ix, qk())
				g.add("list %s m %s %s", fresh, ix, qk())
				g.add("get %s m %s %s", fresh, ix, qk())
				g.add("list %s m %s %s", fresh, ix, qk())
				g.add("kdrain %d", g.nkept)
				g.add("kdrain %d", g.nkept)
				g.nkept++
			}
			if g.nsnap > 1 && r.IntN(2) == 0 {
				g.query(fmt.Sprintf("s%d", r.IntN(g.nsnap)))
			}
			// change iterators: Next with fresh or older snapshots (monotone per iterator is not required by the API for correctness of what we check: we pass fresh ones mostly)
			for _, ci := range openIters {
				if r.IntN(2) == 0 {
					g.add("next %d %s %d", ci, fresh, []int{-1, -1, -1, 0, 1, 3}[r.IntN(6)])
				}
			}
			if withIters {
				switch r.IntN(6) {
				case 0:
					g.add("gc")
					g.add("glen - m")
					g.add("glen - a")
				case 1:
					g.add("gcscan")
				case 2:
					g.add("gcapply")
					g.add("glen - m")
				case 3:
					if len(openIters) > 0 && r.IntN(2) == 0 {
						k := r.IntN(len(openIters))
						if r.IntN(2) == 0 {
							g.add("gcapply")
							g.add("ccloserace %d", openIters[k])
							g.add("gcidle")
							g.add("glen - m")
						} else {
							g.add("cclose %d", openIters[k])
						}
						openIters = append(openIters[:k], openIters[k+1:]...)
					}
				}
			}
		}
		// drain: all iterators catch up, then collection must empty the graveyard
		g.add("rtxn")
		g.nsnap++
		for _, ci := range openIters {
			g.add("next %d s%d -1", ci, g.nsnap-1)
			g.add("next %d s%d -1", ci, g.nsnap-1)
		}
		g.add("gcapply")
		g.add("gc")
		g.add("glen - m")
		g.add("glen - a")
		// every retained snapshot re-read through several indexes
		for s := 0; s < g.nsnap; s++ {
			g.sweep(fmt.Sprintf("s%d", s), 100)
		}
		if g.dense {
			emit(fmt.Sprintf("table watch-dense iters=%v init=%v", withIters, withInit), true, g.ops)
			continue
		}
		emit(fmt.Sprintf("table iters=%v init=%v", withIters, withInit), true, g.ops)
	}
}

// ---------------------------------------------------------------------------
// reference model (the specification, deliberately not a mirror of the code)

type refObj struct {
	o   *tObj
	rev uint64
}

type refTable struct {
	objs    map[string]refObj
	rev     uint64
	pending []string          // initializers not yet done
	grave   map[string]uint64 // id -> deletion revision (only while some tracker is registered)
	ntrack  int               // registered trackers (incl. uncommitted in a txn copy)
}

func (t *refTable) clone() *refTable {
	c := &refTable{objs: make(map[string]refObj, len(t.objs)), rev: t.rev, pending: append([]string{}, t.pending...), grave: map[string]uint64{}, ntrack: t.ntrack}
	for k, v := range t.objs {
		c.objs[k] = v
	}
	for k, v := range t.grave {
		c.grave[k] = v
	}
	return c
}

type refDB struct{ m, a *refTable }

func (d *refDB) clone() *refDB { return &refDB{d.m.clone(), d.a.clone()} }
func (d *refDB) t(n string) *refTable {
	if n == "a" {
		return d.a
	}
	return d.m
}

func (t *refTable) sorted(keep func(refObj) bool) []refObj {
	var out []refObj
	for _, o := range t.objs {
		if keep == nil || keep(o) {
			out = append(out, o)
		}
	}
	sort.Slice(out, func(i, j int) bool { return out[i].o.ID < out[j].o.ID })
	return out
}

type watchRecT struct {
	ch      <-chan struct{}
	name    string
	table   string
	snapRev uint64
	eval    func(*refDB) string // the query's result on a state
	result  string
	wasOpen bool
	fromTxn bool
}

type tIter struct {
	it         statedb.ChangeIterator[*tObj]
	table      string
	delivered  []statedb.Change[*tObj]
	lastRev    uint64
	openWatch  <-chan struct{} // last open watch returned by Next
	createdAt  uint64
	closed     bool
	trackRev   uint64 // last deletion revision handed (or creation revision)
	registered bool   // the creating transaction was committed (its tracker is in the committed root)
	pendingReg bool   // created in the transaction that is still open
	abortedReg bool   // created in a transaction that was aborted
}

type keptSeq struct {
	seq  iter.Seq2[*tObj, statedb.Revision]
	want []refObj
	desc string
}

type tableExec struct {
	lostReported  bool
	kept          []keptSeq // query results handed out earlier and iterated later (lazily evaluated sequences)
	aborts        int       // write transactions aborted so far in this case
	db            *statedb.DB
	m, a          statedb.RWTable[*tObj]
	wtxn          statedb.WriteTxn
	lastHandle    statedb.WriteTxn
	memo          map[string]string
	closerGoid    atomic.Int64
	closerAtEntry atomic.Bool // park the closing goroutine where Close() begins, before it asks for the table lock
	closerDone    chan struct{}
	closerIter    int
	closeRaced    bool // a Close() has overlapped a transaction that registered another iterator
	closerEarly   bool // the parked Close() returned before it reached the table lock
	closerParked  chan struct{}
	closerRelease chan struct{}
	gcDead        bool
	wtables       string
	snaps         []statedb.ReadTxn
	srefs         []*refDB
	committed     *refDB
	txnRef        *refDB
	txnBase       *refDB // committed state when the write txn started
	watches       []*watchRecT
	names         map[<-chan struct{}]string
	iters         []*tIter
	dones         []func(statedb.WriteTxn)
	doneInfo      []string
	initWatch     []*watchRecT

	// graveyard worker control
	gcMu               sync.Mutex
	gcParked           chan string
	gcRelease          chan struct{}
	gcAt               string
	txnRejectedCASOnly bool
	txnWrites          map[string]int
	txnRejects         map[string]int
	glenAtBegin        map[string]int
}

func newTableExec(h string) *tableExec {
	e := &tableExec{names: map[<-chan struct{}]string{}}
	e.db = statedb.New()
	e.db.VerifSetGCRateLimitInterval(time.Nanosecond)
	var err error
	e.m, err = statedb.NewTable(e.db, "m", tIDIndex, tUIndex, tTagIndex, tLpmIndex, tULpmIndex)
	if err != nil {
		panic(err)
	}
	e.a, err = statedb.NewTable(e.db, "a", tIDIndex, tTagIndex)
	if err != nil {
		panic(err)
	}
	e.committed = &refDB{m: &refTable{objs: map[string]refObj{}, grave: map[string]uint64{}}, a: &refTable{objs: map[string]refObj{}, grave: map[string]uint64{}}}
	e.gcParked = make(chan string, 4)
	e.gcRelease = make(chan struct{})
	e.closerParked = make(chan struct{})
	e.closerRelease = make(chan struct{})
	statedb.VerifSetHook(func(point string) {
		if strings.HasPrefix(point, "gc-") {
			if os.Getenv("VERIF_DEBUG") != "" {
				fmt.Fprintln(os.Stderr, "gc hook", point)
			}
			e.gcParked <- point
			<-e.gcRelease
			return
		}
		if point == "commit-before-rootlock" && e.closerGoid.Load() == goid() && !e.closerAtEntry.Load() {
			e.closerParked <- struct{}{}
			<-e.closerRelease
		}
		if point == "dt-close-before-wtxn" && e.closerGoid.Load() == goid() && e.closerAtEntry.Load() {
			e.closerParked <- struct{}{}
			<-e.closerRelease
		}
	})
	e.db.Start()
	return e
}

func (e *tableExec) Close() {
	// let the collector goroutine run freely to its exit
	statedb.VerifSetHook(nil)
	done := make(chan struct{})
	go func() {
		for {
			select {
			case <-e.gcParked:
			case e.gcRelease <- struct{}{}:
			case <-done:
				return
			}
		}
	}()
	if e.wtxn != nil {
		e.wtxn.Abort()
	}
	e.db.Stop()
	close(done)
}

// gcStep drives the collector goroutine: ensure it is parked at "gc-triggered",
// release it and wait for the next parking point.
func (e *tableExec) gcWait() string {
	if e.gcDead {
		return "timeout"
	}
	select {
	case p := <-e.gcParked:
		e.gcAt = p
		return p
	case <-time.After(2 * time.Second):
		e.gcDead = true
		return "timeout"
	}
}

// gcStep advances the collector goroutine to its next hook point.
func (e *tableExec) gcStep() string {
	final := e.gcAt == "gc-committed" || e.gcAt == "gc-nothing"
	if e.gcAt != "" {
		e.gcAt = ""
		e.gcRelease <- struct{}{}
		if final {
			return "" // back in its select
		}
		return e.gcWait()
	}
	e.db.VerifTriggerGC()
	return e.gcWait()
}

// gcUntil steps until the collector is parked at one of the given points.
func (e *tableExec) gcUntil(points ...string) string {
	for i := 0; i < 12; i++ {
		p := e.gcStep()
		if p == "timeout" {
			return p
		}
		for _, x := range points {
			if p == x {
				return p
			}
		}
	}
	return "gave-up"
}

func (e *tableExec) tbl(n string) statedb.RWTable[*tObj] {
	if n == "a" {
		return e.a
	}
	return e.m
}

func (e *tableExec) handle(h string) (statedb.ReadTxn, *refDB, bool) {
	if h == "w" {
		if e.wtxn == nil {
			return nil, nil, false
		}
		return e.wtxn, e.txnRef, true
	}
	if h == "-" {
		return e.db.ReadTxn(), e.committed, true
	}
	i, _ := strconv.Atoi(h[1:])
	return e.snaps[i], e.srefs[i], true
}

func parseTObj(f []string) *tObj {
	o := &tObj{ID: string(unhx(f[0]))}
	o.Val, _ = strconv.Atoi(f[1])
	o.UVar, _ = strconv.Atoi(f[2])
	if f[3] != "-" {
		for _, t := range strings.Split(f[3], ",") {
			o.Tags = append(o.Tags, string(unhx(t)))
		}
	}
	if f[4] != "-" {
		for _, p := range strings.Split(f[4], ",") {
			parts := strings.Split(p, "/")
			l, _ := strconv.Atoi(parts[1])
			o.Pfxs = append(o.Pfxs, tPfx{unhx(parts[0]), l})
		}
	}
	o.Up = f[5] == "1"
	o.Ord, _ = strconv.Atoi(f[6])
	return o
}

func showRO(o *tObj, rev uint64) string { return fmt.Sprintf("%s=%d@%d", hx([]byte(o.ID)), o.Val, rev) }

func showROs(os []refObj) string {
	if len(os) == 0 {
		return "."
	}
	p := make([]string, len(os))
	for i, o := range os {
		p[i] = showRO(o.o, o.rev)
	}
	return strings.Join(p, " ")
}

func collectSeq(seq iter.Seq2[*tObj, statedb.Revision]) []refObj {
	var out []refObj
	for o, r := range seq {
		out = append(out, refObj{o, r})
	}
	return out
}

func errName(err error) string {
	switch {
	case err == nil:
		return "ok"
	case errors.Is(err, statedb.ErrTableNotLockedForWriting):
		return "notLocked"
	case errors.Is(err, statedb.ErrTransactionClosed):
		return "closed"
	case errors.Is(err, statedb.ErrObjectNotFound):
		return "notFound"
	case errors.Is(err, statedb.ErrRevisionNotEqual):
		return "revNotEqual"
	}
	return "err:" + err.Error()
}

func maskPfx(p tPfx) (string, []byte) {
	n := (p.Len + 7) / 8
	d := append([]byte{}, p.Data[:n]...)
	if p.Len%8 != 0 {
		d[n-1] &= 0xff << (8 - p.Len%8)
	}
	return bitsKey(d, p.Len), d
}

// --- spec-level query evaluation ------------------------------------------------

type specKeyed struct {
	key  string // sort key within the index
	o    refObj
	bits string
	plen int
	data []byte
}

func (e *tableExec) specQuery(rt *refTable, kind, idx, key string, plen int) ([]refObj, bool) {
	// returns result and whether the oracle constrains it
	var entries []specKeyed
	switch idx {
	case "id":
		for _, o := range rt.objs {
			entries = append(entries, specKeyed{key: o.o.ID, o: o})
		}
	case "u":
		for _, o := range rt.objs {
			entries = append(entries, specKeyed{key: o.o.ukey(), o: o})
		}
	case "tags":
		for _, o := range rt.objs {
			seen := map[string]bool{}
			for _, t := range o.o.Tags {
				if !seen[t] {
					seen[t] = true
					entries = append(entries, specKeyed{key: t, o: o})
				}
			}
		}
	case "lpm", "ulpm":
		for _, o := range rt.objs {
			var ps []tPfx
			if idx == "lpm" {
				ps = o.o.Pfxs
			} else if o.o.Up {
				ps = []tPfx{{[]byte{byte(o.o.Ord >> 8), byte(o.o.Ord)}, 16}}
			}
			seen := map[string]bool{}
			for _, p := range ps {
				b, d := maskPfx(p)
				if !seen[b] {
					seen[b] = true
					entries = append(entries, specKeyed{bits: b, plen: p.Len, data: d, o: o})
				}
			}
		}
		qb, qd := maskPfx(tPfx{unhx(key), plen})
		mb := max(2, len(qd)) // key width in bytes (most cases use 2-byte keys, some 8-byte ones)
		for _, en := range entries {
			mb = max(mb, len(en.data))
		}
		less := func(a, b specKeyed) bool {
			if x := lpmLess(lpmEnt{data: a.data, plen: a.plen}, lpmEnt{data: b.data, plen: b.plen}, mb); x {
				return true
			}
			if lpmLess(lpmEnt{data: b.data, plen: b.plen}, lpmEnt{data: a.data, plen: a.plen}, mb) {
				return false
			}
			return a.o.o.ID < b.o.o.ID
		}
		sort.Slice(entries, func(i, j int) bool { return less(entries[i], entries[j]) })
		var out []refObj
		switch kind {
		case "get", "list":
			_, stored := func() (int, bool) {
				for _, en := range entries {
					if en.bits == qb {
						return 0, true
					}
				}
				return 0, false
			}()
			constrained := plen == 16 || stored
			best := -1
			for _, en := range entries {
				if strings.HasPrefix(qb, en.bits) && len(en.bits) > best {
					best = len(en.bits)
				}
			}
			for _, en := range entries {
				if best >= 0 && len(en.bits) == best && strings.HasPrefix(qb, en.bits) {
					out = append(out, en.o)
				}
			}
			if kind == "get" && len(out) > 1 {
				out = out[:1]
			}
			return out, constrained
		case "prefix":
			for _, en := range entries {
				if strings.HasPrefix(en.bits, qb) {
					out = append(out, en.o)
				}
			}
		case "lb":
			q := lpmEnt{data: qd, plen: plen}
			for _, en := range entries {
				if !lpmLess(lpmEnt{data: en.data, plen: en.plen}, q, mb) {
					out = append(out, en.o)
				}
			}
		}
		return out, true
	}
	sort.Slice(entries, func(i, j int) bool {
		if entries[i].key != entries[j].key {
			return entries[i].key < entries[j].key
		}
		return entries[i].o.o.ID < entries[j].o.o.ID
	})
	var out []refObj
	seen := map[string]bool{}
	for _, en := range entries {
		ok := false
		switch kind {
		case "get", "list":
			ok = en.key == key
		case "prefix":
			ok = strings.HasPrefix(en.key, key)
		case "lb":
			ok = en.key >= key
		}
		if !ok {
			continue
		}
		if (kind == "prefix" || kind == "lb") && idx == "tags" {
			if seen[en.o.o.ID] {
				continue
			}
			seen[en.o.o.ID] = true
		}
		out = append(out, en.o)
	}
	if kind == "get" && len(out) > 1 {
		out = out[:1]
	}
	return out, true
}

func eqROs(a, b []refObj) bool {
	if len(a) != len(b) {
		return false
	}
	for i := range a {
		if a[i].o.ID != b[i].o.ID || a[i].rev != b[i].rev || a[i].o.Val != b[i].o.Val {
			return false
		}
	}
	return true
}

func (e *tableExec) mkQuery(tn, idx, key string, plen int) statedb.Query[*tObj] {
	switch idx {
	case "id":
		return tIDIndex.Query(key)
	case "u":
		return tUIndex.Query(key)
	case "tags":
		return tTagIndex.Query(key)
	case "lpm":
		return tLpmIndex.Query(unhx(key), statedb.PrefixLen(plen))
	}
	return tULpmIndex.Query(unhx(key), statedb.PrefixLen(plen))
}

func (e *tableExec) name(ch <-chan struct{}) string {
	if n, ok := e.names[ch]; ok {
		return n
	}
	n := fmt.Sprintf("w%d", len(e.names)+1)
	e.names[ch] = n
	return n
}

// chanObs: what a watch variant appends to its observation: the canonical name of the channel
// handed out (order of first appearance) and its state; compared with Model.TableWatch
func (e *tableExec) chanObs(w <-chan struct{}) string {
	if w == nil {
		return " # nil"
	}
	st := "open"
	if isClosed(w) {
		st = "closed"
	}
	return " # " + e.name(w) + " " + st
}

// closedObs: the sorted names of all channels handed out so far that are closed now
func (e *tableExec) closedObs() string {
	var ns []int
	for ch, n := range e.names {
		if isClosed(ch) {
			k, _ := strconv.Atoi(n[1:])
			ns = append(ns, k)
		}
	}
	if len(ns) == 0 {
		return "."
	}
	sort.Ints(ns)
	p := make([]string, len(ns))
	for i, k := range ns {
		p[i] = "w" + strconv.Itoa(k)
	}
	return strings.Join(p, " ")
}

// after a commit / abort: the watch-channel clauses of C06 and C19
func (e *tableExec) afterTxn(o *Out, committedTxn bool) {
	for _, w := range e.watches {
		closed := isClosed(w.ch)
		if w.wasOpen && closed {
			w.wasOpen = false
			if !committedTxn {
				o.Fail("C06", "closed-by-abort", map[string]string{"query": w.name}, fmt.Sprintf("watch channel of %s closed by an aborted transaction", w.name))
			} else {
				// a reader woken by the close must see a newer revision of the table
				cur := e.tbl(w.table).Revision(e.db.ReadTxn())
				if cur <= w.snapRev {
					o.Fail("C06", "closed-without-newer-revision",
						map[string]string{"txn_successful_writes": strconv.Itoa(e.txnWrites[w.table]), "txn_rejected_guarded_ops": strconv.FormatBool(e.txnRejects[w.table] > 0)},
						fmt.Sprintf("watch channel of %s closed by a commit, but the table revision is still %d (snapshot had %d)", w.name, cur, w.snapRev))
				}
			}
		}
		if committedTxn && !closed {
			if now := w.eval(e.committed); now != w.result {
				o.Fail("C06", "missed-close", map[string]string{"query": strings.Fields(w.name)[0], "index": idxOf(w.name)},
					fmt.Sprintf("watch channel of %s still open after the commit changed its result from [%s] to [%s]", w.name, w.result, now))
				w.result = now
			}
		}
	}
	for _, w := range e.initWatch {
		closed := isClosed(w.ch)
		initialized := len(e.committed.t(w.table).pending) == 0
		if w.wasOpen && closed && !initialized {
			o.Fail("C19", "init-watch-closed-early", nil, fmt.Sprintf("init watch of table %s closed although initializers %v are pending", w.table, e.committed.t(w.table).pending))
		}
		if !closed && initialized && committedTxn {
			o.Fail("C19", "init-watch-not-closed", nil, fmt.Sprintf("init watch of table %s still open although the table is initialized", w.table))
		}
		w.wasOpen = !closed
	}
	for _, it := range e.iters {
		if it.openWatch != nil && committedTxn && !it.closed {
			if e.committed.t(it.table).rev > it.lastRevSeen() && !isClosed(it.openWatch) {
				o.Fail("C07", "open-watch-not-closed", nil, fmt.Sprintf("watch returned by Next still open after a commit changed table %s", it.table))
			}
		}
	}
}

func idxOf(name string) string {
	f := strings.Fields(name)
	if len(f) >= 3 {
		return f[2]
	}
	return ""
}

func (it *tIter) lastRevSeen() uint64 { return it.createdAt }

// Do wraps do with the snapshot-stability oracle of C01: a query on a retained
// snapshot must answer exactly what it answered the first time it was asked.
// committedVisible (C05): with no write transaction open, a fresh snapshot shows exactly the objects
// written by the transactions committed so far — no committed write lost or replaced by an older
// state, nothing that no committed transaction wrote
func (e *tableExec) committedVisible(o *Out, after string) {
	if e.db == nil || e.wtxn != nil || e.committed == nil {
		return
	}
	defer func() { recover() }()
	rtx := e.db.ReadTxn()
	for _, tn := range []string{"m", "a"} {
		tbl := e.m
		if tn == "a" {
			tbl = e.a
		}
		rt := e.committed.t(tn)
		got := map[string]uint64{}
		for obj, rev := range tbl.All(rtx) {
			got[obj.ID] = rev
		}
		var lost, ghost []string
		for id := range rt.objs {
			if _, ok := got[id]; !ok {
				lost = append(lost, hx([]byte(id)))
			}
		}
		for id := range got {
			if _, ok := rt.objs[id]; !ok {
				ghost = append(ghost, hx([]byte(id)))
			}
		}
		if len(lost)+len(ghost) > 0 && !e.lostReported {
			e.lostReported = true
			sort.Strings(lost)
			sort.Strings(ghost)
			o.Fail("C05", "committed-write-lost", map[string]string{"table": tn, "after": after},
				fmt.Sprintf("after %s a fresh snapshot of table %s misses committed objects %v and holds objects %v that no committed transaction wrote", after, tn, lost, ghost))
		}
	}
}

func (e *tableExec) Do(o *Out, f []string) string {
	obs := e.do(o, f)
	if len(f) > 0 && (f[0] == "commit" || f[0] == "abort" || f[0] == "side") {
		e.committedVisible(o, f[0])
	}
	if len(f) > 2 && strings.HasPrefix(f[1], "s") && f[0] != "next" {
		obs := obs
		if i := strings.Index(obs, " # "); i >= 0 {
			obs = obs[:i] // the channel part of a watch variant is not part of the query's answer
		}
		q := strings.Join(f, " ")
		q = strings.Replace(q, f[0], strings.TrimSuffix(f[0], "w"), 1)
		if e.memo == nil {
			e.memo = map[string]string{}
		}
		if first, ok := e.memo[q]; ok && first != obs {
			feat := map[string]string{"op": strings.TrimSuffix(f[0], "w")}
			if len(f) > 3 {
				feat["index"] = f[3]
			}
			o.Fail("C01", "snapshot-changed", feat, fmt.Sprintf("%s answered [%s] when first asked and [%s] now", q, first, obs))
		} else if !ok {
			e.memo[q] = obs
		}
	}
	return obs
}

func (e *tableExec) do(o *Out, f []string) string {
	switch f[0] {
	case "wtxn":
		if e.wtxn != nil {
			return "bad-op" // would self-deadlock (only in shrunk / hand-written sequences)
		}
		var metas []statedb.TableMeta
		for _, c := range f[1] {
			if c == 'm' || c == 'a' {
				metas = append(metas, e.tbl(string(c)))
			}
		}
		e.wtxn = e.db.WriteTxn(metas...)
		e.wtables = f[1]
		e.txnRef = e.committed.clone()
		e.txnBase = e.committed
		e.txnWrites, e.txnRejects = map[string]int{}, map[string]int{}
		e.glenAtBegin = map[string]int{}
		for _, c := range f[1] {
			if c == 'm' || c == 'a' {
				e.glenAtBegin[string(c)] = statedb.VerifGraveyardLen(e.wtxn, e.tbl(string(c)))
			}
		}
		return "ok"
	case "commit":
		if e.wtxn == nil {
			return "nil"
		}
		// C05 / C02: a commit publishes the tables its transaction holds and nothing else — what other
		// transactions (a `side` writer, the collector, an initializer mark, an iterator registration)
		// committed to the OTHER tables meanwhile stays as it is
		type unheld struct {
			rev          uint64
			num, glen    int
			init         bool
			pending, tag string
		}
		snapUnheld := func(rtx statedb.ReadTxn) map[string]unheld {
			out := map[string]unheld{}
			for _, tn := range []string{"m", "a"} {
				if strings.Contains(e.wtables, tn) {
					continue
				}
				tb := e.tbl(tn)
				ini, _ := tb.Initialized(rtx)
				out[tn] = unheld{rev: tb.Revision(rtx), num: tb.NumObjects(rtx), glen: statedb.VerifGraveyardLen(rtx, tb), init: ini, pending: fmt.Sprint(tb.PendingInitializers(rtx))}
			}
			return out
		}
		beforeUnheld := snapUnheld(e.db.ReadTxn())
		rtx := e.wtxn.Commit()
		for tn, b := range beforeUnheld {
			if a := snapUnheld(rtx)[tn]; a != b {
				o.Fail("C05", "commit-changed-a-table-it-does-not-hold", map[string]string{"table": tn},
					fmt.Sprintf("table %s is not held by the committing transaction; before its Commit a fresh snapshot showed revision %d, %d objects, %d retained deletions, initialized=%v pending=%s; the snapshot Commit returned shows revision %d, %d objects, %d retained deletions, initialized=%v pending=%s",
						tn, b.rev, b.num, b.glen, b.init, b.pending, a.rev, a.num, a.glen, a.init, a.pending))
			}
		}
		e.lastHandle = e.wtxn
		e.wtxn = nil
		// a deletion is only retained for a change iterator that exists: with no tracker registered
		// (before or by this transaction) the graveyard cannot have grown
		for tn := range e.glenAtBegin {
			if rt := e.txnRef.t(tn); rt.ntrack > 0 && e.gcAt == "" {
				if now := statedb.VerifGraveyardLen(rtx, e.tbl(tn)); now < len(rt.grave) {
					detail := fmt.Sprintf("table %s: %d deleted objects are retained after this commit, but %d deletions were committed while a change iterator was registered and have not been collected", tn, now, len(rt.grave))
					if e.closeRaced {
						o.Fail("C05", "committed-registration-lost", map[string]string{"table": tn}, detail+" — the registration of an iterator, committed while a Close() of another iterator was in progress, is gone")
					}
					o.Fail("C08", "retained-deletion-missing", map[string]string{"table": tn}, detail)
				}
			}
		}
		for tn, before := range e.glenAtBegin {
			if e.txnRef.t(tn).ntrack == 0 {
				if now := statedb.VerifGraveyardLen(rtx, e.tbl(tn)); now > before {
					ab := 0
					for _, it := range e.iters {
						if it.table == tn && it.abortedReg {
							ab++
						}
					}
					if ab > 0 {
						o.Fail("C02", "aborted-changes-left-tracker", map[string]string{"table": tn}, fmt.Sprintf("table %s: %d deleted objects retained by a commit although no change iterator is registered; %d iterator(s) were created by Changes() in transactions that were aborted — the abort left their registration behind", tn, now-before, ab))
					} else {
						o.Fail("C08", "retained-without-tracker", map[string]string{"table": tn}, fmt.Sprintf("table %s: %d deleted objects retained by a commit although no change iterator is registered", tn, now-before))
					}
				}
			}
		}
		for _, it := range e.iters {
			if it.pendingReg {
				it.pendingReg, it.registered = false, true
			}
		}
		// graveyard entries are only kept when a tracker is registered
		for _, tn := range []string{"m", "a"} {
			if !strings.Contains(e.wtables, tn) {
				// not held: other transactions may have committed to it meanwhile
				if tn == "m" {
					e.txnRef.m = e.committed.m
				} else {
					e.txnRef.a = e.committed.a
				}
			}
		}
		// what this commit publishes, read back through the prefix index of table m, is what its
		// transaction built on top of the committed state — not the leftovers of an earlier, aborted
		// transaction and not a state older than the committed one
		if strings.Contains(e.wtables, "m") {
			want := map[string]bool{}
			for id, ro := range e.txnRef.m.objs {
				if len(ro.o.Pfxs) > 0 {
					want[id] = true
				}
			}
			got := map[string]bool{}
			for obj := range e.m.Prefix(rtx, tLpmIndex.Query([]byte{0, 0}, 0)) {
				got[obj.ID] = true
			}
			var lost, stale []string
			for id := range want {
				if !got[id] {
					lost = append(lost, hx([]byte(id)))
				}
			}
			for id := range got {
				if !want[id] {
					stale = append(stale, hx([]byte(id)))
				}
			}
			if len(lost)+len(stale) > 0 {
				sort.Strings(lost)
				sort.Strings(stale)
				o.Fail("C05", "commit-published-a-stale-index-state", map[string]string{"after_an_aborted_txn": strconv.FormatBool(e.aborts > 0)},
					fmt.Sprintf("after this commit the prefix index of table m misses committed objects %v and holds objects %v that no committed transaction wrote (%d transactions were aborted before)", lost, stale, e.aborts))
			}
		}
		e.committed = e.txnRef
		e.txnRef = nil
		e.snaps = append(e.snaps, rtx)
		e.srefs = append(e.srefs, e.committed)
		e.afterTxn(o, true)
		e.committed = e.committed.clone()
		return fmt.Sprintf("s%d", len(e.snaps)-1)
	case "abort":
		if e.wtxn != nil {
			e.wtxn.Abort()
			e.lastHandle = e.wtxn
			e.aborts++
			for _, it := range e.iters {
				if it.pendingReg {
					// N3: tracks nothing; for the retention oracle it is not an open iterator
					it.pendingReg, it.closed, it.abortedReg = false, true, true
				}
			}
		}
		e.wtxn = nil
		e.txnRef = nil
		e.afterTxn(o, false)
		e.abortBattery(o)
		return "ok"
	case "closed":
		return e.closedObs()
	case "rtxn":
		e.snaps = append(e.snaps, e.db.ReadTxn())
		e.srefs = append(e.srefs, e.committed)
		e.committed = e.committed.clone()
		return fmt.Sprintf("s%d", len(e.snaps)-1)
	case "ins", "insw", "mod", "cas":
		return e.doWrite(o, f)
	case "del", "cad":
		return e.doDelete(o, f)
	case "delall":
		tn := f[1]
		if e.wtxn == nil {
			return "bad-op"
		}
		err := e.tbl(tn).DeleteAll(e.wtxn)
		locked := strings.Contains(e.wtables, tn)
		rt := e.txnRef.t(tn)
		if locked {
			ids := make([]string, 0, len(rt.objs))
			for id := range rt.objs {
				ids = append(ids, id)
			}
			sort.Strings(ids)
			for _, id := range ids {
				rt.rev++
				if rt.ntrack > 0 {
					rt.grave[id] = rt.rev
				}
				delete(rt.objs, id)
				e.txnWrites[tn]++
			}
			if got := e.tbl(tn).Revision(e.wtxn); got != rt.rev {
				o.Fail("C09", "table-revision", map[string]string{"op": "delall"}, fmt.Sprintf("table revision %d after DeleteAll, expected %d", got, rt.rev))
				rt.rev = got
			}
			if n := e.tbl(tn).NumObjects(e.wtxn); n != 0 {
				o.Fail("C03", "wrong-result", map[string]string{"op": "delall"}, fmt.Sprintf("%d objects left after DeleteAll", n))
			}
		}
		want := "ok"
		if !locked && len(rt.objs) > 0 {
			want = "notLocked"
		}
		if errName(err) != want {
			o.Fail("C03", "wrong-error", map[string]string{"op": "delall"}, fmt.Sprintf("DeleteAll on table %s: %s, want %s", tn, errName(err), want))
		}
		return errName(err)
	case "get", "list", "prefix", "lb", "getw", "listw", "prefixw", "lbw":
		return e.doQuery(o, f)
	case "all", "allw":
		rtx, ref, ok := e.handle(f[1])
		if !ok {
			return "bad-op"
		}
		tn := f[2]
		var got []refObj
		chobs := ""
		if f[0] == "allw" {
			seq, w := e.tbl(tn).AllWatch(rtx)
			got = collectSeq(seq)
			chobs = e.chanObs(w)
			e.recordWatch(o, w, f, tn, rtx, ref, func(d *refDB) string { return showROs(d.t(tn).sorted(nil)) })
		} else {
			got = collectSeq(e.tbl(tn).All(rtx))
		}
		want := ref.t(tn).sorted(nil)
		if !eqROs(got, want) {
			e.queryFail(o, f, got, want)
		}
		return showROs(got) + chobs
	case "num":
		rtx, ref, ok := e.handle(f[1])
		if !ok {
			return "bad-op"
		}
		n := e.tbl(f[2]).NumObjects(rtx)
		if n != len(ref.t(f[2]).objs) {
			e.failQ(o, f, "C04", "wrong-count", fmt.Sprintf("NumObjects=%d want %d", n, len(ref.t(f[2]).objs)))
		}
		return strconv.Itoa(n)
	case "rev":
		rtx, ref, ok := e.handle(f[1])
		if !ok {
			return "bad-op"
		}
		r := e.tbl(f[2]).Revision(rtx)
		if r != ref.t(f[2]).rev {
			e.failQ(o, f, "C09", "table-revision", fmt.Sprintf("Revision=%d want %d", r, ref.t(f[2]).rev))
		}
		return strconv.FormatUint(r, 10)
	case "glen":
		rtx, _, ok := e.handle(f[1])
		if !ok {
			return "bad-op"
		}
		n := statedb.VerifGraveyardLen(rtx, e.tbl(f[2]))
		return strconv.Itoa(n)
	case "byrev":
		rtx, ref, ok := e.handle(f[1])
		if !ok {
			return "bad-op"
		}
		n, _ := strconv.ParseUint(f[3], 10, 64)
		got := collectSeq(e.tbl(f[2]).LowerBound(rtx, statedb.ByRevision[*tObj](n)))
		want := ref.t(f[2]).sorted(func(o refObj) bool { return o.rev >= n })
		sort.Slice(want, func(i, j int) bool { return want[i].rev < want[j].rev })
		if !eqROs(got, want) {
			e.queryFail(o, f, got, want)
		}
		for i := 1; i < len(got); i++ {
			if got[i].rev <= got[i-1].rev {
				e.failQ(o, f, "C09", "byrevision-order", "revisions not strictly ascending: "+showROs(got))
			}
		}
		return showROs(got)
	case "inited":
		rtx, ref, ok := e.handle(f[1])
		if !ok {
			return "bad-op"
		}
		tn := f[2]
		init, w := e.tbl(tn).Initialized(rtx)
		pend := e.tbl(tn).PendingInitializers(rtx)
		want := ref.t(tn).pending
		if init != (len(want) == 0) || strings.Join(pend, ",") != strings.Join(want, ",") {
			o.Fail("C19", "wrong-init-state", map[string]string{"handle": f[1][:1]}, fmt.Sprintf("Initialized(%s,%s)=%v pending=%v, want pending=%v", f[1], tn, init, pend, want))
		}
		if !init && w != nil && f[1] != "w" {
			found := false
			for _, iw := range e.initWatch {
				if iw.ch == w {
					found = true
				}
			}
			if !found {
				if isClosed(w) && f[1] != "w" && ref == e.srefs[len(e.srefs)-1] {
					o.Fail("C19", "init-watch-closed-early", nil, "init watch closed when handed out by a fresh uninitialized snapshot")
				}
				e.initWatch = append(e.initWatch, &watchRecT{ch: w, table: tn, wasOpen: !isClosed(w)})
			}
		}
		p := "."
		if len(pend) > 0 {
			p = strings.Join(pend, ",")
		}
		return fmt.Sprintf("%v %s", init, p)
	case "reginit":
		tn := f[1]
		if e.wtxn == nil || !strings.Contains(e.wtables, tn) {
			return "panic"
		}
		done := e.tbl(tn).RegisterInitializer(e.wtxn, f[2])
		e.dones = append(e.dones, done)
		e.doneInfo = append(e.doneInfo, tn+" "+f[2])
		e.txnRef.t(tn).pending = append(e.txnRef.t(tn).pending, f[2])
		if got, want := strings.Join(e.tbl(tn).PendingInitializers(e.db.ReadTxn()), ","), strings.Join(e.committed.t(tn).pending, ","); got != want {
			o.Fail("C02", "uncommitted-write-visible", map[string]string{"index": "init"}, fmt.Sprintf("a fresh snapshot shows pending initializers [%s] of table %s while the registering transaction is still open; committed: [%s]", got, tn, want))
		}
		return fmt.Sprintf("d%d", len(e.dones)-1)
	case "initdone":
		i, _ := strconv.Atoi(f[1])
		info := strings.Fields(e.doneInfo[i])
		if e.wtxn == nil {
			return "bad-op"
		}
		if !strings.Contains(e.wtables, info[0]) {
			return "panic" // the closure panics: table not locked; do not call it
		}
		e.dones[i](e.wtxn)
		rt := e.txnRef.t(info[0])
		var np []string
		for _, p := range rt.pending {
			if p != info[1] {
				np = append(np, p)
			}
		}
		rt.pending = np
		return "ok"
	case "klist", "kprefix", "klb":
		return e.doKeep(o, f)
	case "kdrain":
		i, _ := strconv.Atoi(f[1])
		if i >= len(e.kept) {
			return "bad-op"
		}
		k := e.kept[i]
		got := collectSeq(k.seq)
		if !eqROs(got, k.want) {
			o.Fail("C01", "retained-query-result-changed", map[string]string{"op": strings.Fields(k.desc)[0]}, fmt.Sprintf("the sequence returned earlier by %q yields [%s] when iterated now; when it was made the answer was [%s]", k.desc, showROs(got), showROs(k.want)))
			o.Fail("C04", "wrong-result", map[string]string{"op": strings.Fields(k.desc)[0], "index": strings.Fields(k.desc)[3]}, fmt.Sprintf("%s (iterated later): got [%s] want [%s]", k.desc, showROs(got), showROs(k.want)))
		}
		return showROs(got)
	case "sidebad":
		// another write transaction, holding the OTHER table, attempts a write to a table the open
		// transaction holds: it is refused and the holder is not disturbed
		tn := f[1]
		other := map[string]string{"m": "a", "a": "m"}[tn]
		if e.wtxn == nil || e.wtables != tn || e.gcAt == "gc-scanned" {
			return "bad-op"
		}
		obj := parseTObj(f[2:])
		view := func() string {
			// (point lookups only: an iterating read would clone the index transaction, which the model
			// of the watch channels would have to know about)
			var ids []string
			for id := range e.txnRef.t(tn).objs {
				ids = append(ids, id)
			}
			sort.Strings(ids)
			var parts []string
			for _, id := range ids {
				if o, rev, ok := e.tbl(tn).Get(e.wtxn, tIDIndex.Query(id)); ok {
					parts = append(parts, fmt.Sprintf("%s=%d@%d", hx([]byte(o.ID)), o.Val, rev))
				} else {
					parts = append(parts, hx([]byte(id))+"=missing")
				}
			}
			return fmt.Sprintf("%d objects [%s] revision %d", e.tbl(tn).NumObjects(e.wtxn), strings.Join(parts, " "), e.tbl(tn).Revision(e.wtxn))
		}
		before := view()
		x := e.db.WriteTxn(e.tbl(other))
		_, _, err := e.tbl(tn).Insert(x, obj)
		x.Abort()
		if after := view(); after != before {
			o.Fail("C05", "holder-disturbed-by-refused-write", nil, fmt.Sprintf("the transaction holding table %s saw %s before another transaction's refused write to that table and %s after it", tn, before, after))
		}
		if errName(err) != "notLocked" {
			o.Fail("C05", "write-to-a-table-not-held-accepted", map[string]string{"op": "insert"}, fmt.Sprintf("Insert into table %s through a write transaction that holds only %s returned %s", tn, other, errName(err)))
			o.Fail("C03", "wrong-error", map[string]string{"op": "insert"}, fmt.Sprintf("Insert into table %s not held by the transaction returned %s", tn, errName(err)))
		}
		return errName(err)
	case "side":
		// another write transaction, on a table the open one does not hold, inserts and commits
		tn := f[1]
		if e.wtxn == nil || strings.Contains(e.wtables, tn) || e.gcAt == "gc-scanned" {
			return "bad-op"
		}
		obj := parseTObj(f[2:])
		tbl := e.tbl(tn)
		w2 := e.db.WriteTxn(tbl)
		old, hadOld, err := tbl.Insert(w2, obj)
		e.committed = e.committed.clone()
		rt := e.committed.t(tn)
		want, wantHad := rt.objs[obj.ID]
		if err != nil || hadOld != wantHad || (hadOld && (old.ID != want.o.ID || old.Val != want.o.Val)) {
			o.Fail("C03", "wrong-result", map[string]string{"op": "side-insert"}, fmt.Sprintf("Insert in a second write transaction on %s: hadOld=%v err=%v, want hadOld=%v", tn, hadOld, err, wantHad))
		}
		rt.rev++
		rt.objs[obj.ID] = refObj{obj, rt.rev}
		delete(rt.grave, obj.ID)
		w2.Commit()
		saveW, saveR := e.txnWrites, e.txnRejects
		e.txnWrites, e.txnRejects = map[string]int{tn: 1}, map[string]int{}
		e.afterTxn(o, true)
		e.txnWrites, e.txnRejects = saveW, saveR
		oldS := "-"
		if hadOld {
			oldS = showRO(old, want.rev)
		}
		return oldS + " ok"
	case "changes":
		tn := f[1]
		if e.wtxn == nil {
			return "bad-op"
		}
		it, err := e.tbl(tn).Changes(e.wtxn)
		if !strings.Contains(e.wtables, tn) {
			// registering a delete tracker is a write to the table: refused on a table not held
			if err == nil {
				o.Fail("C05", "write-to-a-table-not-held-accepted", map[string]string{"op": "changes"}, fmt.Sprintf("Changes() on table %s succeeded through a write transaction that holds only %q", tn, e.wtables))
				o.Fail("C03", "wrong-error", map[string]string{"op": "changes"}, fmt.Sprintf("Changes() on table %s not held by the transaction returned no error", tn))
				it.Close()
				return "accepted"
			}
			return errName(err)
		}
		if err != nil {
			return errName(err)
		}
		rt := e.txnRef.t(tn)
		rt.ntrack++
		e.iters = append(e.iters, &tIter{it: it, table: tn, createdAt: rt.rev, trackRev: rt.rev, pendingReg: true})
		return fmt.Sprintf("c%d", len(e.iters)-1)
	case "next":
		return e.doNext(o, f)
	case "cclose":
		if e.wtxn != nil {
			return "bad-op"
		}
		i, _ := strconv.Atoi(f[1])
		ci := e.iters[i]
		ci.it.Close()
		ci.closed = true
		if ci.registered {
			e.committed.t(ci.table).ntrack--
		}
		if e.committed.t(ci.table).ntrack == 0 {
			// nothing is retained for nobody (collected at the next run)
		}
		return "ok"
	case "cclosepark":
		// Close() of iterator i starts on another goroutine while a write transaction holding its
		// table is open (and may have registered further iterators); it is held where it begins
		if e.wtxn == nil || e.closerDone != nil || e.gcAt == "gc-scanned" {
			return "bad-op"
		}
		i, _ := strconv.Atoi(f[1])
		ci := e.iters[i]
		if ci.closed || !strings.Contains(e.wtables, ci.table) {
			return "bad-op"
		}
		e.closerAtEntry.Store(true)
		e.closerDone = make(chan struct{})
		e.closerIter = i
		done := e.closerDone
		go func() {
			e.closerGoid.Store(goid())
			ci.it.Close()
			e.closerGoid.Store(0)
			close(done)
		}()
		select {
		case <-e.closerParked:
		case <-done:
			// Close() returned without waiting for the transaction that holds the table
			e.closerEarly = true
		case <-time.After(3 * time.Second):
			return "timeout"
		}
		e.closeRaced = true
		return "ok"
	case "ccloseresume":
		if e.wtxn != nil || e.closerDone == nil {
			return "bad-op"
		}
		if !e.closerEarly {
			e.closerRelease <- struct{}{}
		}
		e.closerEarly = false
		select {
		case <-e.closerDone:
		case <-time.After(3 * time.Second):
			return "timeout"
		}
		e.closerAtEntry.Store(false)
		e.closerDone = nil
		ci := e.iters[e.closerIter]
		ci.closed = true
		if ci.registered {
			e.committed.t(ci.table).ntrack--
		}
		return "ok"
	case "ccloserace":
		// Close() with the collector released in the middle of the close's own commit
		if e.wtxn != nil || e.gcAt == "gc-scanned" {
			return "bad-op"
		}
		i, _ := strconv.Atoi(f[1])
		ci := e.iters[i]
		done := make(chan struct{})
		go func() {
			e.closerGoid.Store(goid())
			ci.it.Close()
			e.closerGoid.Store(0)
			close(done)
		}()
		select {
		case <-e.closerParked:
			// was the collector already triggered, before the tracker removal is committed?
			if e.gcAt == "" {
				select {
				case p := <-e.gcParked:
					e.gcAt = p
				case <-time.After(40 * time.Millisecond):
				}
			}
			if e.gcAt == "gc-triggered" {
				// the collector's lock-free scan runs now, before the close commits
				// (its write transaction would block on the table lock the close holds)
				o.Notes["collector scan while a close is in progress"]++
				e.gcUntil("gc-scanned")
			}
			e.closerRelease <- struct{}{}
			<-done
		case <-done:
		case <-time.After(3 * time.Second):
			return "timeout"
		}
		ci.closed = true
		if ci.registered {
			e.committed.t(ci.table).ntrack--
		}
		return "ok"
	case "gcidle":
		// let the collector handle the triggers the implementation itself produced; nothing is forced
		if e.wtxn != nil {
			return "bad-op"
		}
		ran := false
		if e.gcAt == "gc-scanned" {
			ran = true
			if r := e.gcUntil("gc-committed", "gc-nothing"); r == "timeout" || r == "gave-up" {
				return r
			}
		}
		if os.Getenv("VERIF_DEBUG") != "" {
			fmt.Fprintln(os.Stderr, "gcidle start gcAt=", e.gcAt)
		}
		for k := 0; k < 4; k++ {
			if e.gcAt == "gc-committed" || e.gcAt == "gc-nothing" {
				e.gcAt = ""
				e.gcRelease <- struct{}{}
			}
			if e.gcAt == "" {
				select {
				case p := <-e.gcParked:
					e.gcAt = p
				case <-time.After(40 * time.Millisecond):
				}
			}
			if e.gcAt != "gc-triggered" {
				break
			}
			ran = true
			if r := e.gcUntil("gc-committed", "gc-nothing"); r == "timeout" || r == "gave-up" {
				return r
			}
		}
		e.afterGC(o)
		if ran {
			return "ran"
		}
		return "idle"
	case "gc":
		if e.wtxn != nil {
			return "bad-op"
		}
		// finish a paused round first, then one complete round (scan after this point)
		if e.gcAt == "gc-scanned" {
			if r := e.gcUntil("gc-committed", "gc-nothing"); r == "timeout" || r == "gave-up" {
				return r
			}
		}
		if r := e.gcUntil("gc-triggered"); r != "gc-triggered" {
			return r
		}
		if r := e.gcUntil("gc-committed", "gc-nothing"); r == "timeout" || r == "gave-up" {
			return r
		}
		e.afterGC(o)
		return "ok"
	case "gcwhile":
		// a complete collection run while a write transaction holding ONLY table a is open:
		// the collector needs table m alone and must not be delayed by that transaction (C10)
		if e.wtxn == nil || e.wtables != "a" || e.gcAt == "gc-scanned" || e.collectable("a") > 0 {
			return "bad-op"
		}
		if r := e.gcUntil("gc-triggered"); r != "gc-triggered" {
			return r
		}
		if r := e.gcUntil("gc-committed", "gc-nothing"); r == "timeout" || r == "gave-up" {
			o.Fail("C10", "collector-blocked-by-unrelated-writer", nil,
				"a graveyard collection that has nothing to collect in table a did not complete while a write transaction on table a alone was open")
			// let it go so that the case can be torn down
			e.wtxn.Abort()
			e.wtxn = nil
			e.gcDead = false
			e.gcWait()
			return "blocked"
		}
		return "ok"
	case "gcscan":
		if e.gcAt == "gc-scanned" {
			return "ok"
		}
		if r := e.gcUntil("gc-triggered"); r != "gc-triggered" {
			return r
		}
		if r := e.gcUntil("gc-scanned"); r != "gc-scanned" {
			return r
		}
		return "ok"
	case "gcapply":
		if e.wtxn != nil {
			return "bad-op"
		}
		if e.gcAt != "gc-scanned" {
			return "ok"
		}
		if r := e.gcUntil("gc-committed", "gc-nothing"); r == "timeout" || r == "gave-up" {
			return r
		}
		return "ok"
	}
	return "bad-op"
}

// OnPanic: a documented-legal operation panicked inside the library
func (e *tableExec) OnPanic(o *Out, f []string, msg string) {
	if len(f) == 0 {
		return
	}
	switch f[0] {
	case "reginit", "initdone":
		return // calling a done-function of an aborted registration is user error (see assumptions)
	}
	prop, kind := "C03", "operation-panicked"
	switch f[0] {
	case "changes", "next", "cclose", "ccloserace":
		prop = "C07"
	case "gc", "gcscan", "gcapply", "gcidle", "gcwhile", "glen":
		prop = "C08"
	case "get", "getw", "list", "listw", "prefix", "prefixw", "lb", "lbw", "all", "allw", "num", "rev", "byrev":
		prop = "C04"
	}
	feat := map[string]string{"op": f[0], "after_an_aborted_txn": strconv.FormatBool(e.aborts > 0)}
	detail := fmt.Sprintf("%s panicked: %s", strings.Join(f, " "), msg)
	o.Fail(prop, kind, feat, detail)
	if f[0] == "commit" {
		// a Commit that panics has published nothing or something: either way the committed writes of
		// OTHER transactions must still be there
		w := e.wtxn
		e.wtxn = nil
		e.committedVisible(o, "a commit that panicked")
		e.wtxn = w
	}
	if e.aborts > 0 {
		// an aborted transaction must leave the behaviour of later transactions untouched
		o.Fail("C02", "later-operation-panics-after-an-abort", feat, detail)
	}
}

// collectable: by the specification, the number of retained deletions of a table that a
// collection run would discard now (all of them with no open iterator, otherwise those every
// open iterator has been handed)
func (e *tableExec) collectable(tn string) int {
	rt := e.committed.t(tn)
	minRev := uint64(1<<63 - 1)
	open := 0
	for _, it := range e.iters {
		if it.table == tn && !it.closed {
			open++
			if it.trackRev < minRev {
				minRev = it.trackRev
			}
		}
	}
	n := 0
	for _, r := range rt.grave {
		if open == 0 || r <= minRev {
			n++
		}
	}
	return n
}

// afterGC: C08 — after a complete collection run the graveyard holds exactly the
// deletions some open iterator has not been handed yet
func (e *tableExec) afterGC(o *Out) {
	for _, tn := range []string{"m", "a"} {
		rt := e.committed.t(tn)
		minRev := uint64(1<<63 - 1)
		open := 0
		for _, it := range e.iters {
			if it.table == tn && !it.closed {
				open++
				if it.trackRev < minRev {
					minRev = it.trackRev
				}
			}
		}
		need := 0
		for _, r := range rt.grave {
			if open > 0 && r > minRev {
				need++
			}
		}
		got := statedb.VerifGraveyardLen(e.db.ReadTxn(), e.tbl(tn))
		if got < need {
			o.Fail("C08", "collected-too-early", map[string]string{"open_iterators": strconv.Itoa(open)}, fmt.Sprintf("table %s: %d deleted objects retained after collection, but %d are still unobserved by an open iterator", tn, got, need))
		}
		if got > need {
			o.Fail("C08", "not-collected", map[string]string{"open_iterators": strconv.Itoa(open)}, fmt.Sprintf("table %s: %d deleted objects retained after a complete collection run, expected %d", tn, got, need))
		}
		if got == need {
			// forget what was collected
			for id, r := range rt.grave {
				if !(open > 0 && r > minRev) {
					delete(rt.grave, id)
				}
			}
		}
	}
}

func (e *tableExec) failQ(o *Out, f []string, prop, kind, detail string) {
	feat := map[string]string{"op": f[0]}
	if len(f) > 3 {
		feat["index"] = f[3]
	}
	o.Fail(prop, kind, feat, strings.Join(f, " ")+": "+detail)
}

func (e *tableExec) queryFail(o *Out, f []string, got, want []refObj) {
	e.failQ(o, f, "C04", "wrong-result", fmt.Sprintf("got [%s] want [%s]", showROs(got), showROs(want)))
}

func (e *tableExec) recordWatch(o *Out, w <-chan struct{}, f []string, tn string, rtx statedb.ReadTxn, ref *refDB, eval func(*refDB) string) {
	if w == nil {
		return
	}
	name := strings.Join(f, " ")
	fresh := f[1] != "w" && len(e.srefs) > 0 && ref == e.srefs[len(e.srefs)-1] && e.wtxn == nil
	if fresh && isClosed(w) {
		o.Fail("C06", "closed-when-handed-out", map[string]string{"query": f[0], "index": idxOf(name)}, fmt.Sprintf("%s on a fresh snapshot returned an already closed watch channel", name))
	}
	if f[1] == "w" {
		return // channels obtained inside a write txn are only checked at hand-out
	}
	e.watches = append(e.watches, &watchRecT{ch: w, name: name, table: tn, snapRev: ref.t(tn).rev, eval: eval, result: eval(ref), wasOpen: !isClosed(w)})
}

// doKeep: klist / kprefix / klb: the query is made now, its sequence is iterated later (kdrain)
func (e *tableExec) doKeep(o *Out, f []string) string {
	rtx, ref, ok := e.handle(f[1])
	if !ok || f[1] == "w" {
		return "bad-op"
	}
	tn, idx := f[2], f[3]
	key, plen := f[4], 0
	if idx == "lpm" || idx == "ulpm" {
		parts := strings.Split(f[4], "/")
		key = parts[0]
		plen, _ = strconv.Atoi(parts[1])
	} else {
		key = string(unhx(f[4]))
	}
	kind := strings.TrimPrefix(f[0], "k")
	q := e.mkQuery(tn, idx, key, plen)
	tbl := e.tbl(tn)
	var seq iter.Seq2[*tObj, statedb.Revision]
	switch kind {
	case "list":
		seq = tbl.List(rtx, q)
	case "prefix":
		seq = tbl.Prefix(rtx, q)
	default:
		seq = tbl.LowerBound(rtx, q)
	}
	want, constrained := e.specQuery(ref.t(tn), kind, idx, key, plen)
	if !constrained {
		return "bad-op"
	}
	e.kept = append(e.kept, keptSeq{seq, want, strings.Join(f, " ")})
	return fmt.Sprintf("k%d", len(e.kept)-1)
}

func (e *tableExec) doQuery(o *Out, f []string) string {
	rtx, ref, ok := e.handle(f[1])
	if !ok {
		return "bad-op"
	}
	tn, idx := f[2], f[3]
	key, plen := f[4], 0
	if idx == "lpm" || idx == "ulpm" {
		parts := strings.Split(f[4], "/")
		key = parts[0]
		plen, _ = strconv.Atoi(parts[1])
	} else {
		key = string(unhx(f[4]))
	}
	kind := strings.TrimSuffix(f[0], "w")
	q := e.mkQuery(tn, idx, key, plen)
	tbl := e.tbl(tn)
	var got []refObj
	var w <-chan struct{}
	switch kind {
	case "get":
		var obj *tObj
		var rev uint64
		var found bool
		if f[0] == "getw" {
			obj, rev, w, found = tbl.GetWatch(rtx, q)
		} else {
			obj, rev, found = tbl.Get(rtx, q)
		}
		if found {
			got = []refObj{{obj, rev}}
		}
	case "list":
		if f[0] == "listw" {
			var seq iter.Seq2[*tObj, statedb.Revision]
			seq, w = tbl.ListWatch(rtx, q)
			got = collectSeq(seq)
		} else {
			got = collectSeq(tbl.List(rtx, q))
		}
	case "prefix":
		if f[0] == "prefixw" {
			var seq iter.Seq2[*tObj, statedb.Revision]
			seq, w = tbl.PrefixWatch(rtx, q)
			got = collectSeq(seq)
		} else {
			got = collectSeq(tbl.Prefix(rtx, q))
		}
	case "lb":
		if f[0] == "lbw" {
			var seq iter.Seq2[*tObj, statedb.Revision]
			seq, w = tbl.LowerBoundWatch(rtx, q)
			got = collectSeq(seq)
		} else {
			got = collectSeq(tbl.LowerBound(rtx, q))
		}
	}
	want, constrained := e.specQuery(ref.t(tn), kind, idx, key, plen)
	if constrained && !eqROs(got, want) {
		e.queryFail(o, f, got, want)
	}
	if !constrained {
		o.Notes["lpm get/list unconstrained (N2)"]++
	}
	if w != nil {
		e.recordWatch(o, w, f, tn, rtx, ref, func(d *refDB) string {
			r, _ := e.specQuery(d.t(tn), kind, idx, key, plen)
			return showROs(r)
		})
	}
	if strings.HasSuffix(f[0], "w") {
		return showROs(got) + e.chanObs(w)
	}
	return showROs(got)
}

func (e *tableExec) resolveRev(rt *refTable, id string, spec string) uint64 {
	cur := rt.rev
	if o, ok := rt.objs[id]; ok {
		cur = o.rev
	}
	switch spec {
	case "cur":
		return cur
	case "cur-1":
		if cur == 0 {
			return 0
		}
		return cur - 1
	case "cur+1":
		return cur + 1
	case "0":
		return 0
	}
	return 1000000
}

func (e *tableExec) doWrite(o *Out, f []string) string {
	tn := f[1]
	tbl := e.tbl(tn)
	objF := f[2:]
	spec := ""
	if f[0] == "cas" {
		spec = f[2]
		objF = f[3:]
	}
	obj := parseTObj(objF)
	if e.wtxn == nil {
		// a write through a finished transaction: use the last handle
		return e.closedWrite(o, f, obj)
	}
	locked := strings.Contains(e.wtables, tn)
	rt := e.txnRef.t(tn)
	old, had := rt.objs[obj.ID]
	var (
		gotOld *tObj
		hadOld bool
		err    error
		guard  uint64
	)
	chobs := ""
	switch f[0] {
	case "ins":
		gotOld, hadOld, err = tbl.Insert(e.wtxn, obj)
	case "insw":
		var w <-chan struct{}
		gotOld, hadOld, w, err = tbl.InsertWatch(e.wtxn, obj)
		chobs = e.chanObs(w)
		if w != nil && err == nil && isClosed(w) {
			o.Fail("C06", "closed-when-handed-out", map[string]string{"query": "insw"}, "InsertWatch returned a closed channel")
		}
	case "mod":
		gotOld, hadOld, err = tbl.Modify(e.wtxn, obj, func(old, new *tObj) *tObj {
			c := *new
			c.Val = old.Val + new.Val
			return &c
		})
	case "cas":
		guard = e.resolveRev(rt, obj.ID, spec)
		gotOld, hadOld, err = tbl.CompareAndSwap(e.wtxn, guard, obj)
	}
	// specification (keyed map with documented results)
	wantErr := "ok"
	wantOld, wantHad := old.o, had
	apply := true
	switch {
	case !locked:
		wantErr, wantOld, wantHad, apply = "notLocked", nil, false, false
	case f[0] == "cas" && !had:
		wantErr, wantOld, wantHad, apply = "notFound", nil, false, false
	case f[0] == "cas" && old.rev != guard:
		wantErr, apply = "revNotEqual", false
	}
	gotErr := errName(err)
	if gotErr != wantErr || hadOld != wantHad || (wantHad && (gotOld == nil || gotOld != wantOld)) {
		feat := map[string]string{"op": f[0], "guard_zero": strconv.FormatBool(f[0] == "cas" && guard == 0), "locked": strconv.FormatBool(locked)}
		o.Fail("C03", "wrong-result", feat, fmt.Sprintf("%s: got (old=%v, hadOld=%v, %s) want (hadOld=%v, %s)", strings.Join(f[:2], " ")+" "+hx([]byte(obj.ID)), gotOld != nil, hadOld, gotErr, wantHad, wantErr))
	}
	if gotErr != "ok" && gotErr != "notLocked" && gotErr != "closed" {
		e.txnRejects[tn]++
	}
	// follow the implementation's outcome for the rest of the history, checking revisions
	if locked {
		newRev := tbl.Revision(e.wtxn)
		if gotErr == "ok" {
			if newRev <= rt.rev {
				o.Fail("C09", "revision-not-increasing", map[string]string{"op": f[0]}, fmt.Sprintf("table revision %d after a successful %s, was %d", newRev, f[0], rt.rev))
			}
			stored := obj
			if f[0] == "mod" && had {
				c := *obj
				c.Val = old.o.Val + obj.Val
				stored = &c
			}
			// the object as stored (Modify stores the merged copy): read it back
			so, srev, found := tbl.Get(e.wtxn, tIDIndex.Query(obj.ID))
			if !found || srev != newRev || so.Val != stored.Val {
				o.Fail("C09", "write-attribution", map[string]string{"op": f[0]}, fmt.Sprintf("after %s of %s: Get -> found=%v rev=%d (table revision %d)", f[0], hx([]byte(obj.ID)), found, srev, newRev))
			}
			if found {
				rt.objs[obj.ID] = refObj{so, newRev}
			} else {
				rt.objs[obj.ID] = refObj{stored, newRev}
			}
			delete(rt.grave, obj.ID)
			rt.rev = newRev
			e.txnWrites[tn]++
			_ = apply
		} else if newRev != rt.rev {
			o.Fail("C09", "revision-changed-by-rejected-op", map[string]string{"op": f[0], "err": gotErr}, fmt.Sprintf("table revision %d after rejected %s (%s), was %d", newRev, f[0], gotErr, rt.rev))
			o.Fail("C03", "rejected-op-changed-state", map[string]string{"op": f[0], "what": "table-revision"}, fmt.Sprintf("rejected %s (%s) changed the table revision from %d to %d", f[0], gotErr, rt.rev, newRev))
			rt.rev = newRev
		}
	}
	oldS := "-"
	if hadOld && gotOld != nil {
		oldS = showRO(gotOld, old.rev)
	}
	return oldS + " " + gotErr + chobs
}

func (e *tableExec) closedWrite(o *Out, f []string, obj *tObj) string {
	// the handle of the last finished transaction
	if len(e.snaps) == 0 {
		return "- closed"
	}
	h := e.lastHandle
	if h == nil {
		return "- closed"
	}
	_, _, err := e.tbl(f[1]).Insert(h, obj)
	if errName(err) != "closed" {
		o.Fail("C03", "wrong-error", map[string]string{"op": "insert-on-finished-txn"}, "Insert through a finished transaction returned "+errName(err))
	}
	return "- " + errName(err)
}

func (e *tableExec) doDelete(o *Out, f []string) string {
	tn := f[1]
	tbl := e.tbl(tn)
	if e.wtxn == nil {
		return "- closed"
	}
	locked := strings.Contains(e.wtables, tn)
	rt := e.txnRef.t(tn)
	var (
		id    string
		guard uint64
		got   *tObj
		had   bool
		err   error
	)
	if f[0] == "del" {
		id = string(unhx(f[2]))
		got, had, err = tbl.Delete(e.wtxn, &tObj{ID: id})
	} else {
		id = string(unhx(f[3]))
		guard = e.resolveRev(rt, id, f[2])
		got, had, err = tbl.CompareAndDelete(e.wtxn, guard, &tObj{ID: id})
	}
	old, exists := rt.objs[id]
	wantErr, wantHad := "ok", exists
	switch {
	case !locked:
		wantErr, wantHad = "notLocked", false
	case f[0] == "cad" && exists && old.rev != guard:
		wantErr = "revNotEqual"
	}
	gotErr := errName(err)
	if gotErr != wantErr || had != wantHad || (wantHad && got != old.o) {
		feat := map[string]string{"op": f[0], "guard_zero": strconv.FormatBool(f[0] == "cad" && guard == 0), "locked": strconv.FormatBool(locked)}
		o.Fail("C03", "wrong-result", feat, fmt.Sprintf("%s %s %s: got (hadOld=%v, %s) want (hadOld=%v, %s)", f[0], tn, hx([]byte(id)), had, gotErr, wantHad, wantErr))
	}
	if gotErr == "revNotEqual" {
		e.txnRejects[tn]++
	}
	if locked {
		newRev := tbl.Revision(e.wtxn)
		_, _, still := tbl.Get(e.wtxn, tIDIndex.Query(id))
		if gotErr == "ok" && had {
			if newRev <= rt.rev {
				o.Fail("C09", "revision-not-increasing", map[string]string{"op": f[0]}, fmt.Sprintf("table revision %d after a successful delete, was %d", newRev, rt.rev))
			}
			if still {
				o.Fail("C03", "wrong-result", map[string]string{"op": f[0]}, "object still present after successful delete")
			}
			delete(rt.objs, id)
			if rt.ntrack > 0 {
				rt.grave[id] = newRev
			}
			rt.rev = newRev
			e.txnWrites[tn]++
		} else {
			if newRev != rt.rev {
				o.Fail("C09", "revision-changed-by-rejected-op", map[string]string{"op": f[0], "err": gotErr, "existed": strconv.FormatBool(exists)}, fmt.Sprintf("table revision %d after no-op/rejected %s, was %d", newRev, f[0], rt.rev))
				o.Fail("C03", "rejected-op-changed-state", map[string]string{"op": f[0], "what": "table-revision"}, fmt.Sprintf("no-op/rejected %s (%s) changed the table revision from %d to %d", f[0], gotErr, rt.rev, newRev))
				rt.rev = newRev
			}
			if exists && !still && gotErr != "ok" {
				o.Fail("C03", "rejected-op-changed-state", map[string]string{"op": f[0]}, "object gone after a rejected delete")
				delete(rt.objs, id)
			}
		}
	}
	oldS := "-"
	if had && got != nil {
		oldS = showRO(got, old.rev)
	}
	return oldS + " " + gotErr
}

func (e *tableExec) doNext(o *Out, f []string) string {
	i, _ := strconv.Atoi(f[1])
	ci := e.iters[i]
	rtx, ref, ok := e.handle(f[2])
	if !ok {
		return "bad-op"
	}
	k, _ := strconv.Atoi(f[3])
	seq, w := ci.it.Next(rtx)
	closed := isClosed(w)
	var taken []statedb.Change[*tObj]
	if k != 0 {
		for ch := range seq {
			taken = append(taken, ch)
			if ch.Revision <= ci.lastRev {
				o.Fail("C07", "not-increasing", nil, fmt.Sprintf("change revision %d delivered after %d", ch.Revision, ci.lastRev))
			}
			ci.lastRev = ch.Revision
			if ch.Deleted {
				ci.trackRev = ch.Revision
			}
			if k > 0 && len(taken) >= k {
				break
			}
		}
	}
	ci.delivered = append(ci.delivered, taken...)
	if !closed {
		ci.openWatch = w
		ci.createdAt = e.committed.t(ci.table).rev
		if len(taken) > 0 {
			o.Fail("C07", "open-watch-delivered", nil, "Next returned an open watch channel together with changes")
		}
	} else {
		ci.openWatch = nil
	}
	// convergence: closed channel + fully consumed => replay == (committed view of) the snapshot
	if closed && k < 0 {
		target := ref
		if f[2] == "w" {
			target = e.txnBase // only committed changes, whatever kind of txn is passed
		}
		state := map[string]refObj{}
		for _, ch := range ci.delivered {
			if ch.Deleted {
				delete(state, ch.Object.ID)
			} else {
				state[ch.Object.ID] = refObj{ch.Object, ch.Revision}
			}
		}
		want := target.t(ci.table).objs
		okc := len(state) == len(want)
		for id, x := range want {
			if y, found := state[id]; !found || y.rev != x.rev || y.o != x.o {
				okc = false
			}
		}
		if !okc {
			var a, b []refObj
			for _, x := range state {
				a = append(a, x)
			}
			for _, x := range want {
				b = append(b, x)
			}
			sort.Slice(a, func(i, j int) bool { return a[i].o.ID < a[j].o.ID })
			sort.Slice(b, func(i, j int) bool { return b[i].o.ID < b[j].o.ID })
			o.Fail("C07", "replay-diverges", map[string]string{"txn_kind": map[bool]string{true: "WriteTxn", false: "ReadTxn"}[f[2] == "w"]},
				fmt.Sprintf("replaying the %d delivered changes gives [%s], the snapshot holds [%s]", len(ci.delivered), showROs(a), showROs(b)))
		}
	}
	st := "open"
	if closed {
		st = "closed"
	}
	if len(taken) == 0 {
		return st + " ."
	}
	parts := make([]string, len(taken))
	for j, ch := range taken {
		d := "U"
		if ch.Deleted {
			d = "D"
		}
		parts[j] = d + ":" + showRO(ch.Object, ch.Revision)
	}
	return st + " " + strings.Join(parts, " ")
}

var _ = bytes.Equal

// abortBattery (C02): after Abort a fresh snapshot must show exactly the
// committed state through every index
func (e *tableExec) abortBattery(o *Out) {
	rtx := e.db.ReadTxn()
	type q struct {
		tn, kind, idx, key string
		plen               int
	}
	qs := []q{{"m", "lb", "id", "", 0}, {"m", "lb", "tags", "", 0}, {"m", "lb", "u", "", 0}, {"m", "prefix", "lpm", "x0000", 0},
		{"m", "prefix", "ulpm", "x0000", 0}, {"a", "lb", "id", "", 0}, {"a", "lb", "tags", "", 0}}
	for _, x := range qs {
		query := e.mkQuery(x.tn, x.idx, x.key, x.plen)
		var got []refObj
		if x.kind == "lb" {
			got = collectSeq(e.tbl(x.tn).LowerBound(rtx, query))
		} else {
			got = collectSeq(e.tbl(x.tn).Prefix(rtx, query))
		}
		want, _ := e.specQuery(e.committed.t(x.tn), x.kind, x.idx, x.key, x.plen)
		if !eqROs(got, want) {
			o.Fail("C02", "abort-left-a-trace", map[string]string{"index": x.idx}, fmt.Sprintf("after Abort a fresh snapshot answers %s(%s,%s) with [%s]; the committed state gives [%s]", x.kind, x.tn, x.idx, showROs(got), showROs(want)))
		}
	}
	for _, tn := range []string{"m", "a"} {
		if r := e.tbl(tn).Revision(rtx); r != e.committed.t(tn).rev {
			o.Fail("C02", "abort-left-a-trace", map[string]string{"index": "revision"}, fmt.Sprintf("table %s has revision %d after Abort, committed revision is %d", tn, r, e.committed.t(tn).rev))
		}
		ok, _ := e.tbl(tn).Initialized(rtx)
		if ok != (len(e.committed.t(tn).pending) == 0) {
			o.Fail("C02", "abort-left-a-trace", map[string]string{"index": "init"}, fmt.Sprintf("table %s Initialized=%v after Abort", tn, ok))
		}
		if got, want := strings.Join(e.tbl(tn).PendingInitializers(rtx), ","), strings.Join(e.committed.t(tn).pending, ","); got != want {
			o.Fail("C02", "abort-left-a-trace", map[string]string{"index": "init"}, fmt.Sprintf("table %s has pending initializers [%s] after Abort, the committed state has [%s]", tn, got, want))
		}
	}
}
