package main

import (
	"fmt"
	"iter"
	"math/rand/v2"
	"os"
	"runtime"
	"runtime/debug"
	"slices"
	"sort"
	"strconv"
	"strings"
	"sync"
	"sync/atomic"
	"time"

	"github.com/cilium/statedb"
	"github.com/cilium/statedb/index"
)

func init() {
	suites["sched"] = SuiteDef{Gen: genSched, NewExec: func(h string) Exec { return newSchedExec() }}
}

// ---------------------------------------------------------------------------
// generator: a tiny simulation of the lock protocol decides which thread may
// be released next (the generator's knowledge of the protocol; the model in
// Lean and the implementation are both compared against what actually happens)

type simThread struct {
	kind    string // writer | register
	tables  []int  // sorted, de-duplicated
	commit  bool
	labels  []string // park labels in order
	pc      int      // index of the label the thread is parked at
	done    bool
	holding map[int]bool
	holdsMu bool
}

func writerLabels(tabs []int, commit bool) []string {
	l := []string{"start"}
	for _, t := range tabs {
		l = append(l, fmt.Sprintf("before-lock %d", t), fmt.Sprintf("after-lock %d", t))
	}
	l = append(l, "wtxn-locked", "wtxn-root-loaded", "ops-done")
	if commit {
		l = append(l, "commit-before-rootlock", "commit-rootlocked", "commit-stored", "commit-rootunlocked", "commit-notified")
		for _, t := range tabs {
			l = append(l, fmt.Sprintf("after-unlock %d", t))
		}
		l = append(l, "commit-tables-unlocked", "commit-init-closed")
	} else {
		l = append(l, "abort-before-unlock")
		for _, t := range tabs {
			l = append(l, fmt.Sprintf("after-unlock %d", t))
		}
		l = append(l, "abort-unlocked")
	}
	return l
}

type schedSim struct {
	threads []*simThread
	owner   map[int]int // table -> thread
	mu      int         // -1 free
}

// next blocking resource of a thread parked at pc: ("t", n) / ("mu", 0) / ("", 0)
func (s *schedSim) need(th *simThread) (string, int) {
	if th.done {
		return "", 0
	}
	l := th.labels[th.pc]
	if strings.HasPrefix(l, "before-lock ") {
		n, _ := strconv.Atoi(l[len("before-lock "):])
		return "t", n
	}
	if l == "commit-before-rootlock" || (th.kind == "register" && l == "register-before-lock") {
		return "mu", 0
	}
	return "", 0
}

func (s *schedSim) enabled(i int) bool {
	th := s.threads[i]
	if th.done {
		return false
	}
	k, n := s.need(th)
	switch k {
	case "t":
		_, held := s.owner[n]
		return !held
	case "mu":
		return s.mu < 0
	}
	return true
}

// advance thread i to its next label, applying lock effects
func (s *schedSim) step(i int) {
	th := s.threads[i]
	l := th.labels[th.pc]
	if strings.HasPrefix(l, "before-lock ") {
		n, _ := strconv.Atoi(l[len("before-lock "):])
		s.owner[n] = i
	}
	if l == "commit-before-rootlock" || (th.kind == "register" && l == "register-before-lock") {
		s.mu = i
	}
	if l == "commit-stored" || l == "register-stored" || (th.kind == "register" && l == "register-locked" && len(th.labels) == 3) {
		s.mu = -1
	}
	th.pc++
	if th.pc >= len(th.labels) {
		th.done = true
		// unlocks before the last labels
	}
	if !th.done {
		nl := th.labels[th.pc]
		if strings.HasPrefix(nl, "after-unlock ") {
			n, _ := strconv.Atoi(nl[len("after-unlock "):])
			delete(s.owner, n)
		}
	}
}

func genSched(cfg Config, emit func(string, bool, []string)) {
	n := 300
	if cfg.Thorough() {
		n = 4000
	}
	for c := 0; c < n; c++ {
		r := newRand(cfg.Seed, uint64(900+c))
		var ops []string
		add := func(f string, a ...any) { ops = append(ops, fmt.Sprintf(f, a...)) }
		if c%100 == 99 {
			// the first write transactions of a fresh table, opened in parallel without hooks
			trials := 60
			if cfg.Thorough() {
				trials = 300
			}
			add("storm %d %d", 4+r.IntN(5), trials)
			emit("sched storm", true, ops)
			continue
		}
		if c%50 == 23 {
			// registrations crossing each other, then writers over both new tables
			add("init %d", 1+r.IntN(2))
			if r.IntN(2) == 0 {
				add("writer 0 commit - -")
				add("lockstep")
			}
			add("regrace %s", []string{"abort", "commit"}[r.IntN(2)])
			add("read")
			emit("sched regrace", true, ops)
			continue
		}
		ntab := 2 + r.IntN(2)
		manyTables := c%7 == 6
		if manyTables {
			// lock sets of five and more tables, requested far out of order
			ntab = 5 + r.IntN(2)
		}
		add("init %d", ntab)
		sim := &schedSim{owner: map[int]int{}, mu: -1}
		nthreads := 2 + r.IntN(3)
		nreg := 0
		initRegistered := false
		for t := 0; t < nthreads; t++ {
			if r.IntN(6) == 0 && nreg < 2 {
				if r.IntN(3) == 0 {
					// a registration rejected for its duplicate name
					add("register dup")
					sim.threads = append(sim.threads, &simThread{kind: "register", labels: []string{"start", "register-before-lock", "register-locked"}})
				} else {
					add("register")
					sim.threads = append(sim.threads, &simThread{kind: "register", labels: []string{"start", "register-before-lock", "register-locked", "register-stored"}})
				}
				nreg++
				continue
			}
			// tables in any order, with duplicates
			k := 1 + r.IntN(ntab)
			var req []string
			set := map[int]bool{}
			for i := 0; i < k; i++ {
				x := r.IntN(ntab)
				req = append(req, strconv.Itoa(x))
				set[x] = true
				if r.IntN(4) == 0 {
					req = append(req, strconv.Itoa(x))
				}
			}
			if manyTables && t == 0 {
				// every table, the lowest one listed last
				req, set = nil, map[int]bool{}
				for _, x := range r.Perm(ntab - 1) {
					req = append(req, strconv.Itoa(x+1))
					set[x+1] = true
				}
				req = append(req, "0")
				set[0] = true
			}
			var tabs []int
			for x := range set {
				tabs = append(tabs, x)
			}
			sort.Ints(tabs)
			commit := r.IntN(4) != 0
			mark, reg := "-", "-"
			if !initRegistered && r.IntN(4) == 0 && commit {
				reg = strconv.Itoa(tabs[0])
				initRegistered = true
			} else if initRegistered && r.IntN(3) == 0 && set[0] {
				// mark the initializer done (registered on the lowest table of an earlier writer; may be a different table: then it is a no-op)
				mark = strconv.Itoa(tabs[0])
			}
			modeS := map[bool]string{true: "commit", false: "abort"}[commit]
			if r.IntN(8) == 0 {
				modeS += "-anon"
			}
			add("writer %s %s %s %s", strings.Join(req, ","), modeS, mark, reg)
			sim.threads = append(sim.threads, &simThread{kind: "writer", tables: tabs, commit: commit, labels: writerLabels(tabs, commit)})
		}
		add("watches")
		add("read")
		if manyTables && c%14 == 6 {
			// every thread released in turn, one step each, from the very start
			add("lockstep")
			add("enabled")
			add("read")
			add("closed")
			add("watches")
			emit("sched lockstep", true, ops)
			continue
		}
		// schedule
		mode := c % 3 // 0 random, 1 run-one-then-probe-at-every-point, 2 bursty
		cur := -1
		for steps := 0; steps < 400; steps++ {
			var en []int
			for i := range sim.threads {
				if sim.enabled(i) {
					en = append(en, i)
				}
			}
			if len(en) == 0 {
				break
			}
			pick := en[r.IntN(len(en))]
			if mode == 2 && cur >= 0 && sim.enabled(cur) && r.IntN(4) != 0 {
				pick = cur
			}
			if mode == 1 {
				// drive thread 0 one step at a time; between its steps let another thread run as far as it can
				if sim.enabled(0) && steps%2 == 0 {
					pick = 0
				} else if len(en) > 1 {
					for _, x := range en {
						if x != 0 {
							pick = x
							break
						}
					}
					if r.IntN(2) == 0 {
						pick = en[r.IntN(len(en))]
					}
				}
			}
			cur = pick
			if r.IntN(6) == 0 {
				add("enabled")
			}
			add("step %d", pick)
			sim.step(pick)
			switch r.IntN(5) {
			case 0, 1:
				add("read")
			case 2:
				add("closed")
			case 3:
				add("watches")
			}
		}
		add("lockstep") // whatever is left runs to completion
		add("enabled")
		add("read")
		add("closed")
		add("watches")
		emit(fmt.Sprintf("sched mode=%d", mode), true, ops)
	}
}

// ---------------------------------------------------------------------------
// executor: real goroutines parked at the verif hooks

type ctrObj struct {
	ID  string
	Val int
}

func (o *ctrObj) TableHeader() []string { return []string{"ID", "Val"} }
func (o *ctrObj) TableRow() []string    { return []string{o.ID, strconv.Itoa(o.Val)} }

var ctrIndex = statedb.Index[*ctrObj, string]{
	Name:       "id",
	FromObject: func(o *ctrObj) index.KeySet { return index.NewKeySet(index.String(o.ID)) },
	FromKey:    index.String,
	FromString: index.FromString,
	Unique:     true,
}

type schedEvent struct {
	tid   int
	label string
}

type schedThread struct {
	kind             string
	req              []int
	dup              bool
	tables           []int
	commit           bool
	mark             []int
	reg              []int
	resume           chan struct{}
	done             bool
	goid             int64
	result           statedb.ReadTxn
	seenRev          map[int]uint64
	seenCnt          map[int]int
	locked           bool // between wtxn-locked and the last after-unlock
	parked           string
	handle           statedb.WriteTxn
	specAtCommit     string
	started          bool
	mustSee          int         // tables registered when the last table lock was taken
	specAtLoad       []specTable // committed state when the root was loaded
	otherRev         map[int]uint64
	otherCnt         map[int]int
	otherInit        map[int]string // Initialized / PendingInitializers of unheld tables as first seen through the txn
	initFlips        []string
	didMark          []int        // tables whose initializer this transaction marked done
	anon             bool         // the write transaction is opened through DB.NewHandle("")
	otherInitialized map[int]bool // Initialized() of the tables it does not hold, read through the transaction
}

type specTable struct {
	cnt         int
	rev         uint64
	initPending bool
	hasInit     bool
}

type chanRec struct {
	ch      <-chan struct{}
	name    string
	table   int
	snapRev uint64
	isInit  bool
	wasOpen bool
}

type schedExec struct {
	db            *statedb.DB
	tables        []statedb.RWTable[*ctrObj]
	seqToTab      map[uint64]int
	threads       []*schedThread
	events        chan schedEvent
	mu            sync.Mutex
	byGoid        map[int64]int
	spec          []specTable // committed state by the specification (serial increments)
	chans         []*chanRec
	names         map[<-chan struct{}]string
	doneFns       map[int]func(statedb.WriteTxn)
	holder        map[int]int // table -> thread (from observed events), for the mutual exclusion oracle
	stuck         bool
	initialTables int
	lastSnap      string // the previous snapshot taken by the oracle (for C09: revisions never decrease)
}

func goid() int64 {
	var buf [64]byte
	n := runtime.Stack(buf[:], false)
	f := strings.Fields(string(buf[:n]))
	id, _ := strconv.ParseInt(f[1], 10, 64)
	return id
}

func newSchedExec() *schedExec {
	e := &schedExec{seqToTab: map[uint64]int{}, byGoid: map[int64]int{}, names: map[<-chan struct{}]string{}, doneFns: map[int]func(statedb.WriteTxn){}, holder: map[int]int{}}
	e.events = make(chan schedEvent, 16)
	return e
}

func (e *schedExec) park(label string) {
	id := goid()
	e.mu.Lock()
	tid, ok := e.byGoid[id]
	e.mu.Unlock()
	if !ok {
		return // not a controlled goroutine (scheduler / setup)
	}
	th := e.threads[tid]
	e.events <- schedEvent{tid, label}
	<-th.resume
}

func (e *schedExec) Close() {
	if e.stuck {
		// parked goroutines and held locks cannot be unwound; keep everything reachable
		leakedExecs = append(leakedExecs, e)
		statedb.VerifSetHook(nil)
		statedb.VerifSetLockHook(nil)
		return
	}
	statedb.VerifSetHook(nil)
	statedb.VerifSetLockHook(nil)
	// let every parked goroutine run to completion so that nothing leaks locks
	deadline := time.After(3 * time.Second)
	for {
		alive := false
		for _, th := range e.threads {
			if !th.done && th.started {
				alive = true
				select {
				case th.resume <- struct{}{}:
				default:
				}
			}
		}
		if !alive {
			return
		}
		select {
		case ev := <-e.events:
			if ev.label == "done" {
				e.threads[ev.tid].done = true
			}
		case <-deadline:
			leakedExecs = append(leakedExecs, e) // keep the handles reachable: their finalizer panics
			fmt.Fprintln(os.Stderr, "sched: threads did not finish:", e.describe())
			return
		case <-time.After(20 * time.Millisecond):
		}
	}
}

var leakedExecs []*schedExec

func (e *schedExec) describe() string {
	var parts []string
	for i, th := range e.threads {
		parts = append(parts, fmt.Sprintf("t%d(%s done=%v parked=%q)", i, th.kind, th.done, th.parked))
	}
	return strings.Join(parts, " ") + fmt.Sprintf(" holder=%v", e.holder)
}

var ctrLpmIndex = statedb.LPMIndex[*ctrObj]{
	Name: "lpm",
	FromObject: func(o *ctrObj) iter.Seq2[[]byte, statedb.PrefixLen] {
		return func(yield func([]byte, statedb.PrefixLen) bool) {
			yield([]byte{10, byte(o.Val)}, 16)
		}
	},
	Unique: false,
}

var ctrTagIndex = statedb.Index[*ctrObj, string]{
	Name:       "tag",
	FromObject: func(o *ctrObj) index.KeySet { return index.NewKeySet(index.String("t")) },
	FromKey:    index.String,
	FromString: index.FromString,
	Unique:     false,
}

func (e *schedExec) newTable(name string) {
	t, err := statedb.NewTable(e.db, name, ctrIndex, ctrLpmIndex, ctrTagIndex)
	if err != nil {
		panic(err)
	}
	e.tables = append(e.tables, t)
	e.seqToTab[statedb.VerifTableSeq(t)] = len(e.tables) - 1
}

func (e *schedExec) snapString(rtx statedb.ReadTxn) string {
	var parts []string
	for _, meta := range e.db.GetTables(rtx) {
		t := meta.(statedb.Table[*ctrObj])
		o, _, ok := t.Get(rtx, ctrIndex.Query("ctr"))
		c := 0
		if ok {
			c = o.Val
		}
		parts = append(parts, fmt.Sprintf("%d@%d", c, t.Revision(rtx)))
	}
	if len(parts) == 0 {
		return "."
	}
	return strings.Join(parts, " ")
}

func (e *schedExec) specString(n int) string {
	var parts []string
	for i := 0; i < n && i < len(e.spec); i++ {
		parts = append(parts, fmt.Sprintf("%d@%d", e.spec[i].cnt, e.spec[i].rev))
	}
	if len(parts) == 0 {
		return "."
	}
	return strings.Join(parts, " ")
}

func (e *schedExec) name(ch <-chan struct{}) string {
	if n, ok := e.names[ch]; ok {
		return n
	}
	n := fmt.Sprintf("w%d", len(e.names)+1)
	e.names[ch] = n
	return n
}

// visibility oracle (C06 / C19): whatever is closed now must already be visible
func (e *schedExec) checkClosed(o *Out, at string) {
	fresh := e.db.ReadTxn()
	for _, c := range e.chans {
		if c.wasOpen && isClosed(c.ch) {
			c.wasOpen = false
			metas := e.db.GetTables(fresh)
			if c.table >= len(metas) {
				continue
			}
			t := metas[c.table].(statedb.Table[*ctrObj])
			if c.isInit {
				if ok, _ := t.Initialized(fresh); !ok {
					o.Fail("C19", "init-watch-closed-before-visible", map[string]string{"at": at}, fmt.Sprintf("init watch of table %d closed (%s) but a fresh snapshot is not initialized", c.table, at))
				}
			} else if r := t.Revision(fresh); r <= c.snapRev {
				o.Fail("C06", "closed-before-visible", map[string]string{"at": at}, fmt.Sprintf("watch %s of table %d closed (%s) but a fresh snapshot still has revision %d (channel came from revision %d)", c.name, c.table, at, r, c.snapRev))
			}
		}
	}
}

func (e *schedExec) threadBody(tid int) {
	th := e.threads[tid]
	e.mu.Lock()
	e.byGoid[goid()] = tid
	e.mu.Unlock()
	defer func() {
		if r := recover(); r != nil {
			fmt.Fprintln(os.Stderr, "sched thread panic:", r, string(debug.Stack()))
			e.events <- schedEvent{tid, "panic:" + strings.ReplaceAll(fmt.Sprint(r), " ", "_")}
			return
		}
		e.events <- schedEvent{tid, "done"}
	}()
	e.park("start")
	if th.kind == "register" {
		if th.dup {
			if _, err := statedb.NewTable(e.db, "t0", ctrIndex, ctrLpmIndex, ctrTagIndex); err == nil {
				panic("duplicate table name accepted")
			}
			return
		}
		e.newTable(fmt.Sprintf("r%d", tid))
		return
	}
	var metas []statedb.TableMeta
	for _, t := range th.req {
		metas = append(metas, e.tables[t])
	}
	var wtxn statedb.WriteTxn
	if th.anon {
		// through a handle without a name (the name only labels metrics)
		wtxn = e.db.NewHandle("").WriteTxn(metas...)
	} else {
		wtxn = e.db.WriteTxn(metas...)
	}
	th.handle = wtxn // keep it reachable: an unfinished handle's finalizer panics
	// every table registered before the locks were taken is readable through the
	// transaction, at the state the root had when it was loaded
	th.otherRev, th.otherCnt, th.otherInit = map[int]uint64{}, map[int]int{}, map[int]string{}
	e.mu.Lock()
	th.otherInitialized = map[int]bool{}
	e.mu.Unlock()
	for t := 0; t < th.mustSee && t < len(e.tables); t++ {
		if slices.Contains(th.tables, t) {
			continue
		}
		tbl := e.tables[t]
		th.otherRev[t] = tbl.Revision(wtxn)
		if o, _, ok := tbl.Get(wtxn, ctrIndex.Query("ctr")); ok {
			th.otherCnt[t] = o.Val
		}
		ini, _ := tbl.Initialized(wtxn)
		th.otherInit[t] = fmt.Sprintf("%v %v", ini, tbl.PendingInitializers(wtxn))
		e.mu.Lock()
		th.otherInitialized[t] = ini
		e.mu.Unlock()
	}
	for _, t := range th.tables {
		tbl := e.tables[t]
		th.seenRev[t] = tbl.Revision(wtxn)
		o, _, ok := tbl.Get(wtxn, ctrIndex.Query("ctr"))
		c := 0
		if ok {
			c = o.Val
		}
		th.seenCnt[t] = c
		tbl.Insert(wtxn, &ctrObj{ID: "ctr", Val: c + 1})
		for _, r := range th.reg {
			if r == t {
				e.mu.Lock()
				e.doneFns[t] = tbl.RegisterInitializer(wtxn, "init")
				e.mu.Unlock()
			}
		}
		for _, m := range th.mark {
			if m == t {
				e.mu.Lock()
				fn := e.doneFns[t]
				e.mu.Unlock()
				if fn != nil {
					fn(wtxn)
					e.mu.Lock()
					th.didMark = append(th.didMark, t)
					e.mu.Unlock()
				}
			}
		}
	}
	e.park("ops-done")
	// the transaction's view of the tables it does not hold is frozen: their initialization
	// state read now (other transactions may have committed meanwhile) is what it was
	for t, was := range th.otherInit {
		tbl := e.tables[t]
		ini, _ := tbl.Initialized(wtxn)
		if now := fmt.Sprintf("%v %v", ini, tbl.PendingInitializers(wtxn)); now != was {
			th.initFlips = append(th.initFlips, fmt.Sprintf("table %d (not held): Initialized/PendingInitializers through the write transaction went from [%s] to [%s]", t, was, now))
		}
	}
	if th.commit {
		th.result = wtxn.Commit()
	} else {
		wtxn.Abort()
	}
}

func parseInts(s string) []int {
	if s == "-" {
		return nil
	}
	var out []int
	for _, p := range strings.Split(s, ",") {
		n, _ := strconv.Atoi(p)
		out = append(out, n)
	}
	return out
}

func (e *schedExec) enabledSet() []int {
	var en []int
	for i, th := range e.threads {
		if th.done || e.stuck {
			continue
		}
		ok := true
		if strings.HasPrefix(th.parked, "before-lock ") {
			n, _ := strconv.Atoi(th.parked[len("before-lock "):])
			if _, held := e.holder[n]; held {
				ok = false
			}
		}
		if th.parked == "commit-before-rootlock" || (th.kind == "register" && th.parked == "register-before-lock") {
			if _, held := e.holder[-1]; held {
				ok = false
			}
		}
		if ok {
			en = append(en, i)
		}
	}
	return en
}

// storm: n goroutines open the FIRST write transactions of a freshly registered table at the
// same instant (no hooks, true parallelism), each incrementing one counter object; repeated
// for a number of trials. Serialised writers end at n with never two of them inside
// WriteTxn..Commit at once.
func (e *schedExec) storm(o *Out, n, trials int) string {
	statedb.VerifSetHook(nil)
	statedb.VerifSetLockHook(nil)
	for trial := 0; trial < trials; trial++ {
		db := statedb.New()
		tbl, err := statedb.NewTable(db, "fresh", ctrIndex, ctrLpmIndex, ctrTagIndex)
		if err != nil {
			panic(err)
		}
		var ready, inside, overlap, panics atomic.Int32
		var wg sync.WaitGroup
		for g := 0; g < n; g++ {
			wg.Add(1)
			go func() {
				defer wg.Done()
				defer func() {
					if r := recover(); r != nil {
						panics.Add(1)
					}
				}()
				ready.Add(1)
				for ready.Load() < int32(n) {
				}
				w := db.WriteTxn(tbl)
				if inside.Add(1) > 1 {
					overlap.Add(1)
				}
				cur := 0
				if obj, _, ok := tbl.Get(w, ctrIndex.Query("c")); ok {
					cur = obj.Val
				}
				tbl.Insert(w, &ctrObj{ID: "c", Val: cur + 1})
				inside.Add(-1)
				w.Commit()
			}()
		}
		done := make(chan struct{})
		go func() { wg.Wait(); close(done) }()
		unfinished := 0
		select {
		case <-done:
		case <-time.After(10 * time.Second):
			unfinished = 1
		}
		cnt := 0
		if obj, _, ok := tbl.Get(db.ReadTxn(), ctrIndex.Query("c")); ok {
			cnt = obj.Val
		}
		if cnt != n || overlap.Load() > 0 || panics.Load() > 0 || unfinished > 0 {
			o.Fail("C05", "first-writers-not-serialised", map[string]string{"goroutines": strconv.Itoa(n)},
				fmt.Sprintf("trial %d: %d goroutines each opened a write transaction on a freshly registered table and incremented one counter: counter=%d (want %d), transactions observed inside WriteTxn..Commit together %d times, panics=%d, stuck=%d", trial, n, cnt, n, overlap.Load(), panics.Load(), unfinished))
			return fmt.Sprintf("cnt=%d unfinished=%d", cnt, unfinished)
		}
	}
	return fmt.Sprintf("cnt=%d unfinished=0", n)
}

func (e *schedExec) Do(o *Out, f []string) string {
	switch f[0] {
	case "lockstep":
		// release the enabled threads round-robin, one step each, until every thread has
		// finished or none can move
		idx := 0
		for fuel := 0; fuel < 4000; fuel++ {
			en := e.enabledSet()
			if len(en) == 0 {
				break
			}
			pick := en[0]
			for _, k := range en {
				if k >= idx {
					pick = k
					break
				}
			}
			r := e.Do(o, []string{"step", strconv.Itoa(pick)})
			if r == "stuck" || r == "panic" {
				return r
			}
			idx = pick + 1
		}
		alive := 0
		for _, th := range e.threads {
			if !th.done {
				alive++
			}
		}
		if alive == 0 {
			return "finished"
		}
		if len(e.enabledSet()) == 0 && !e.stuck {
			o.Fail("C10", "deadlock", map[string]string{"tables": strconv.Itoa(len(e.tables))}, fmt.Sprintf("%d unfinished threads and none can take a step (held: %v)", alive, e.holder))
			return "deadlock"
		}
		return "out-of-fuel"
	case "regrace":
		// two NewTable calls crossing each other: the first stops right after its table's mutex
		// exists, the second runs to the end, then the first — so the table with the LOWER lock
		// sequence number has the HIGHER position; then a writer over both new tables that commits /
		// aborts, then a committing writer over both.  Only "did everything finish" is compared.
		if len(f) != 2 || e.db == nil {
			return "bad-op"
		}
		stepTo := func(t int) string {
			for fuel := 0; fuel < 64 && !e.threads[t].done; fuel++ {
				if r := e.Do(o, []string{"step", strconv.Itoa(t)}); r == "stuck" || r == "panic" || r == "blocked" {
					return r
				}
			}
			return "ok"
		}
		a := len(e.threads)
		nt := len(e.tables)
		e.Do(o, []string{"register"})
		e.Do(o, []string{"register"})
		e.Do(o, []string{"step", strconv.Itoa(a)})
		if r := stepTo(a + 1); r != "ok" {
			return r
		}
		if r := stepTo(a); r != "ok" {
			return r
		}
		if len(e.tables) != nt+2 {
			return "registration-failed"
		}
		e.Do(o, []string{"writer", fmt.Sprintf("%d,%d", nt, nt+1), f[1], "-", "-"})
		if r := e.Do(o, []string{"lockstep"}); r != "finished" {
			return r
		}
		e.Do(o, []string{"writer", fmt.Sprintf("%d,%d", nt+1, nt), "commit", "-", "-"})
		return e.Do(o, []string{"lockstep"})
	case "storm":
		n, _ := strconv.Atoi(f[1])
		trials, _ := strconv.Atoi(f[2])
		return e.storm(o, n, trials)
	case "init":
		n, _ := strconv.Atoi(f[1])
		e.db = statedb.New()
		for i := 0; i < n; i++ {
			e.newTable(fmt.Sprintf("t%d", i))
			e.spec = append(e.spec, specTable{})
		}
		e.initialTables = n
		statedb.VerifSetHook(e.park)
		statedb.VerifSetLockHook(func(phase string, seq uint64) {
			e.mu.Lock()
			t, ok := e.seqToTab[seq]
			e.mu.Unlock()
			if ok {
				e.park(fmt.Sprintf("%s %d", phase, t))
			}
		})
		return "ok"
	case "writer", "register":
		th := &schedThread{kind: f[0], resume: make(chan struct{}), seenRev: map[int]uint64{}, seenCnt: map[int]int{}}
		th.dup = f[0] == "register" && len(f) > 1 && f[1] == "dup"
		if f[0] == "writer" {
			th.req = parseInts(f[1])
			set := map[int]bool{}
			for _, t := range th.req {
				set[t] = true
			}
			for t := range set {
				th.tables = append(th.tables, t)
			}
			sort.Ints(th.tables)
			th.commit = strings.HasPrefix(f[2], "commit")
			th.anon = strings.HasSuffix(f[2], "-anon")
			th.mark, th.reg = parseInts(f[3]), parseInts(f[4])
		}
		e.threads = append(e.threads, th)
		tid := len(e.threads) - 1
		th.started = true
		go e.threadBody(tid)
		ev := <-e.events // parks at "start"
		th.parked = ev.label
		return fmt.Sprintf("t%d", tid)
	case "step":
		tid, _ := strconv.Atoi(f[1])
		if tid >= len(e.threads) {
			return "no-thread"
		}
		th := e.threads[tid]
		if th.done {
			return "finished"
		}
		if e.stuck {
			return "stuck"
		}
		// only release a thread whose next blocking step is possible
		isEn := false
		for _, x := range e.enabledSet() {
			if x == tid {
				isEn = true
			}
		}
		if !isEn {
			return "blocked"
		}
		prev := th.parked
		th.resume <- struct{}{}
		var ev schedEvent
		select {
		case ev = <-e.events:
		case <-time.After(3 * time.Second):
			e.stuck = true
			o.Fail("C10", "thread-blocked", map[string]string{"parked_at": strings.Fields(prev)[0]},
				fmt.Sprintf("thread %d released from %q did not reach its next step although nothing it needs is held (held: %v)", tid, prev, e.holder))
			return "stuck"
		}
		if ev.tid != tid {
			e.stuck = true
			o.Fail("C10", "unexpected-progress", nil, fmt.Sprintf("thread %d moved to %q while thread %d was released", ev.tid, ev.label, tid))
			return "stuck"
		}
		th.parked = ev.label
		if strings.HasPrefix(ev.label, "panic:") {
			// a panic inside the library (possibly while holding db.mu): nothing can be trusted any more
			e.stuck = true
			th.done = true
			leakedExecs = append(leakedExecs, e)
			o.Fail("C05", "commit-or-writetxn-panicked", map[string]string{"after_table_registration": strconv.FormatBool(len(e.spec) > e.initialTables)},
				fmt.Sprintf("thread %d released from %q panicked: %s", tid, prev, ev.label))
			return "panic"
		}
		e.onEvent(o, tid, th, prev, ev.label)
		if ev.label == "done" {
			th.done = true
			if th.result != nil {
				got := e.snapString(th.result)
				return "done " + got
			}
		}
		return ev.label
	case "read":
		rtx := e.db.ReadTxn()
		got := e.snapString(rtx)
		want := e.specString(len(e.spec))
		if got != want {
			e.stateFail(o, "read", got, want, "a snapshot taken now")
		}
		e.checkClosed(o, "read")
		return got
	case "watches":
		rtx := e.db.ReadTxn()
		var parts []string
		for i, meta := range e.db.GetTables(rtx) {
			t := meta.(statedb.Table[*ctrObj])
			s := func() (s string) {
				_, w := t.AllWatch(rtx)
				a := e.name(w)
				e.record(w, a, i, t.Revision(rtx), false)
				// channels of the other index kinds obey the same ordering; they are recorded for
				// the closed-implies-visible oracle but not named in the observation
				_, lw := t.ListWatch(rtx, ctrLpmIndex.Query([]byte{10, 0}, 8))
				e.record(lw, "lpm", i, t.Revision(rtx), false)
				_, tw := t.ListWatch(rtx, ctrTagIndex.Query("t"))
				e.record(tw, "tag", i, t.Revision(rtx), false)
				_, _, gw, _ := t.GetWatch(rtx, ctrIndex.Query("ctr"))
				e.record(gw, "get", i, t.Revision(rtx), false)
				ok, iw := t.Initialized(rtx)
				if i < len(e.spec) && ok == e.spec[i].initPending {
					o.Fail("C19", "initialized-is-not-the-committed-state", map[string]string{"reports_initialized": strconv.FormatBool(ok)},
						fmt.Sprintf("table %d: Initialized(fresh snapshot)=%v pending=%v, but by the transactions committed so far the initializer is %s", i, ok, t.PendingInitializers(rtx),
							map[bool]string{true: "registered and not yet marked done", false: "marked done in a committed transaction (or none was registered)"}[e.spec[i].initPending]))
				}
				b := "inited"
				if !ok {
					b = e.name(iw)
					e.record(iw, b, i, 0, true)
				}
				return a + "/" + b
			}()
			parts = append(parts, s)
		}
		if len(parts) == 0 {
			return "."
		}
		return strings.Join(parts, " ")
	case "closed":
		e.checkClosed(o, "closed")
		var idx []int
		for ch, n := range e.names {
			if isClosed(ch) {
				k, _ := strconv.Atoi(n[1:])
				idx = append(idx, k)
			}
		}
		sort.Ints(idx)
		if len(idx) == 0 {
			return "."
		}
		parts := make([]string, len(idx))
		for i, k := range idx {
			parts[i] = fmt.Sprintf("w%d", k)
		}
		return strings.Join(parts, " ")
	case "enabled":
		en := e.enabledSet()
		if len(en) == 0 {
			alive := 0
			for _, th := range e.threads {
				if !th.done {
					alive++
				}
			}
			if alive > 0 {
				o.Fail("C10", "deadlock", nil, fmt.Sprintf("%d unfinished threads and none can take a step (held: %v)", alive, e.holder))
			}
			return "."
		}
		parts := make([]string, len(en))
		for i, k := range en {
			parts[i] = strconv.Itoa(k)
		}
		return strings.Join(parts, " ")
	}
	return "bad-op"
}

func (e *schedExec) record(w <-chan struct{}, name string, table int, rev uint64, isInit bool) {
	for _, c := range e.chans {
		if c.ch == w {
			return
		}
	}
	e.chans = append(e.chans, &chanRec{ch: w, name: name, table: table, snapRev: rev, isInit: isInit, wasOpen: !isClosed(w)})
}

// onEvent: bookkeeping + the oracles that are tied to protocol points
func (e *schedExec) onEvent(o *Out, tid int, th *schedThread, prev, label string) {
	for _, m := range th.initFlips {
		o.Fail("C19", "init-state-changed-within-txn", nil, fmt.Sprintf("thread %d: %s", tid, m))
	}
	th.initFlips = nil
	switch {
	case strings.HasPrefix(label, "after-lock "):
		n, _ := strconv.Atoi(label[len("after-lock "):])
		if other, held := e.holder[n]; held {
			o.Fail("C05", "two-writers-hold-table", nil, fmt.Sprintf("thread %d acquired table %d while thread %d holds it", tid, n, other))
		}
		e.holder[n] = tid
	case strings.HasPrefix(label, "after-unlock "):
		n, _ := strconv.Atoi(label[len("after-unlock "):])
		delete(e.holder, n)
	case label == "commit-rootlocked" || label == "register-locked":
		e.holder[-1] = tid
	case label == "commit-rootunlocked":
		delete(e.holder, -1)
	case label == "wtxn-locked":
		th.mustSee = len(e.spec)
	case label == "wtxn-root-loaded":
		th.specAtLoad = append([]specTable{}, e.spec...)
	case label == "ops-done":
		for t, rev := range th.otherRev {
			if t < len(th.specAtLoad) && (rev != th.specAtLoad[t].rev || th.otherCnt[t] != th.specAtLoad[t].cnt) {
				o.Fail("C05", "writer-reads-other-table-wrongly", nil, fmt.Sprintf("thread %d reads table %d (not held) through its write transaction as %d @%d, the committed state when it loaded the root was %d @%d", tid, t, th.otherCnt[t], rev, th.specAtLoad[t].cnt, th.specAtLoad[t].rev))
				o.Fail("C02", "write-txn-view-mixes-two-committed-states", nil, fmt.Sprintf("thread %d reads table %d (not held) through its write transaction as %d @%d, the committed state when it loaded the root was %d @%d", tid, t, th.otherCnt[t], rev, th.specAtLoad[t].cnt, th.specAtLoad[t].rev))
			}
		}
		// the initializer state of the tables it does not hold is the committed one of the moment the
		// transaction was granted (its root load), not an earlier one
		for t, ini := range th.otherInitialized {
			if t < len(th.specAtLoad) && ini == th.specAtLoad[t].initPending {
				o.Fail("C19", "write-txn-sees-stale-initializer-state", map[string]string{"reports_initialized": strconv.FormatBool(ini)},
					fmt.Sprintf("thread %d reads table %d (not held) through its write transaction as initialized=%v; by the transactions committed when it was granted the initializer was %s", tid, t, ini,
						map[bool]string{true: "registered and not yet marked done", false: "marked done (or never registered)"}[th.specAtLoad[t].initPending]))
			}
		}
		// the writer saw every write committed to its tables earlier
		for _, t := range th.tables {
			if t < len(e.spec) && (th.seenRev[t] != e.spec[t].rev || th.seenCnt[t] != e.spec[t].cnt) {
				o.Fail("C05", "writer-did-not-see-latest", nil, fmt.Sprintf("thread %d holds table %d and sees counter %d @%d, committed state is %d @%d", tid, t, th.seenCnt[t], th.seenRev[t], e.spec[t].cnt, e.spec[t].rev))
			}
		}
	case label == "commit-stored":
		// the commit point: from now on every snapshot contains all of this txn's writes
		for _, t := range th.tables {
			if t < len(e.spec) {
				e.spec[t].cnt++
				e.spec[t].rev++
			}
		}
		e.mu.Lock()
		for _, t := range th.reg {
			if t < len(e.spec) {
				e.spec[t].hasInit, e.spec[t].initPending = true, true
			}
		}
		for _, t := range th.didMark {
			if t < len(e.spec) {
				e.spec[t].initPending = false
			}
		}
		e.mu.Unlock()
		th.specAtCommit = e.specString(len(e.spec))
	case label == "register-stored":
		e.spec = append(e.spec, specTable{})
	case label == "done":
		if th.kind == "register" {
			delete(e.holder, -1)
		}
		if th.result != nil {
			// the snapshot returned by Commit contains the txn's writes and is the state at its commit point
			got := e.snapString(th.result)
			if got != th.specAtCommit {
				o.Fail("C02", "commit-snapshot-not-its-commit-state", nil, fmt.Sprintf("snapshot returned by Commit of thread %d shows [%s]; the state at its commit point was [%s]", tid, got, th.specAtCommit))
			}
			for _, t := range th.tables {
				parts := strings.Fields(got)
				if t < len(parts) {
					want := fmt.Sprintf("%d@", th.seenCnt[t]+1)
					if !strings.HasPrefix(parts[t], want) {
						o.Fail("C02", "commit-snapshot-misses-own-write", nil, fmt.Sprintf("snapshot returned by Commit of thread %d shows table %d as %s, its own write made the counter %d", tid, t, parts[t], th.seenCnt[t]+1))
					}
				}
			}
		}
	}
	// before the root store nothing of an uncommitted txn may be visible, and no
	// channel may be closed before the change is visible: checked at every step
	rtx := e.db.ReadTxn()
	got := e.snapString(rtx)
	want := e.specString(len(e.spec))
	defer func() { e.lastSnap = got }()
	if got != want {
		e.stateFail(o, strings.Fields(label)[0], got, want, fmt.Sprintf("a snapshot taken after thread %d reached %q", tid, label))
	}
	e.checkClosed(o, strings.Fields(label)[0])
}

var _ = rand.IntN

// stateFail classifies a snapshot that is not the committed state
func (e *schedExec) stateFail(o *Out, at, got, want, what string) {
	g, w := strings.Fields(got), strings.Fields(want)
	if len(g) < len(w) {
		o.Fail("C05", "registered-table-lost", map[string]string{"at": at}, fmt.Sprintf("%s shows [%s]; the committed state is [%s]: a registered table disappeared", what, got, want))
		return
	}
	behind := false
	for i := range w {
		if i < len(g) && g[i] != w[i] {
			var gc, wc int
			fmt.Sscanf(g[i], "%d@", &gc)
			fmt.Sscanf(w[i], "%d@", &wc)
			if gc < wc {
				behind = true
			}
		}
	}
	if behind {
		o.Fail("C05", "committed-write-lost", map[string]string{"at": at}, fmt.Sprintf("%s shows [%s]; the committed state (serial order of the commits so far) is [%s]", what, got, want))
	}
	// C09: a table's revision never decreases from one committed state to the next
	prev := strings.Fields(e.lastSnap)
	for i := range g {
		if i < len(prev) {
			var a, b int
			var ra, rb uint64
			fmt.Sscanf(prev[i], "%d@%d", &a, &ra)
			fmt.Sscanf(g[i], "%d@%d", &b, &rb)
			if rb < ra {
				o.Fail("C09", "table-revision-decreased", map[string]string{"at": at}, fmt.Sprintf("%s: table %d went from revision %d to %d between two committed states ([%s] then [%s])", what, i, ra, rb, e.lastSnap, got))
			}
		}
	}
	o.Fail("C02", "snapshot-not-a-committed-state", map[string]string{"at": at}, fmt.Sprintf("%s shows [%s]; the committed state is [%s]", what, got, want))
}
