# Per-property configuration of ./check (suites, Lean modules, evidence texts).

COMMON_TB = [
    "Lean 4.33.0 kernel; axioms per theorem listed under coverage.theorems (subset of propext, Classical.choice, Quot.sound); no sorry/admit/native_decide/bv_decide/own axioms (grep-audited outside comments)",
    "the statements in lean/SdbModel/Props/<id>.lean say what the property says",
    "tools/extract (go/ast fact extractor) recognises the constants / protocol steps it regenerates",
    "the Go harness (generators reach the relevant behaviour; canonicalisation loses nothing the property talks about); the correspondence is differential testing, not proof",
]

PROPS = {
    "C18": {
        "suites": ["enc"],
        "lean_modules": ["SdbModel.Props.C18"],
        "level": "proof",
        "facts_key": "enc",
        "exhaustive": True,
        "rule": "enc suite: exhaustive tables over {eps} u {00,01,02,ff,'a'}^<=2 (quick) / <=3 (thorough) for enc and all (secondary,secondary) and (primary,primary) pairs, targeted long prefix-related primaries around encoded length 256/512, random keys up to 700 bytes, integer edge values x random, random LPM keys; a case is one op list; distinct = distinct sha256 of the op list; all cases are non-trivial (each evaluates the real encoder and the oracle)",
        "trusted_base": COMMON_TB + [
            "modelled by hand, tied by correspondence: appendEncode loop shape, encodeNonUniqueKey layout (also asserted by the extractor), nonUniqueKey accessors, EncodeLPMKey/DecodeLPMKey; encoding/binary.BigEndian trusted as big-endian",
            "key lengths < 2^16 for composite_split (uint16 length suffix)",
            "index.String / NetIP encoders are identity/fixed-width copies of their input (not modelled; string injectivity is trivial for a cast)",
        ],
        "assumptions": ["bytes are < 256", "platform int is 64 bit (read from strconv.IntSize by the extractor)"],
    },
}
