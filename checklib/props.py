# Per-property configuration of ./check (suites, Lean modules, evidence texts).

COMMON_TB = [
    "Lean 4.33.0 kernel; axioms per theorem listed under coverage.theorems (subset of propext, Classical.choice, Quot.sound); no sorry/admit/native_decide/bv_decide/own axioms (grep-audited outside comments)",
    "the statements in lean/SdbModel/Props/<id>.lean say what the property says",
    "tools/extract (go/ast fact extractor) recognises the constants / protocol steps it regenerates",
    "the Go harness (generators reach the relevant behaviour; canonicalisation loses nothing the property talks about); the correspondence is differential testing, not proof",
]

PROPS = {
    "C18": {
        "suites": ["enc"],
        "lean_modules": ["SdbModel.Props.C18"],
        "level": "proof",
        "facts_key": "enc",
        "exhaustive": True,
        "rule": "enc suite: exhaustive tables over {eps} u {00,01,02,ff,'a'}^<=2 (quick) / <=3 (thorough) for enc and all (secondary,secondary) and (primary,primary) pairs, targeted long prefix-related primaries around encoded length 256/512, random keys up to 700 bytes, integer edge values x random, random LPM keys; a case is one op list; distinct = distinct sha256 of the op list; all cases are non-trivial (each evaluates the real encoder and the oracle)",
        "trusted_base": COMMON_TB + [
            "modelled by hand, tied by correspondence: appendEncode loop shape, encodeNonUniqueKey layout (also asserted by the extractor), nonUniqueKey accessors, EncodeLPMKey/DecodeLPMKey; encoding/binary.BigEndian trusted as big-endian",
            "key lengths < 2^16 for composite_split (uint16 length suffix)",
            "index.String / NetIP encoders are identity/fixed-width copies of their input (not modelled; string injectivity is trivial for a cast)",
        ],
        "assumptions": ["bytes are < 256", "platform int is 64 bit (read from strconv.IntSize by the extractor)"],
    },
    "C11": {
        "suites": ["part"],
        "lean_modules": ["SdbModel.Props.C11"],
        "level": "translation_validation",
        "facts_key": "art",
        "rule": "part suite: a case = one fresh part.Tree (per-node or root-only watch mode) driven through 1-6 (quick) / 1-10 (thorough) transactions of up to 30/120 operations (insert, modify, delete, get, prefix, lower-bound, iterate, len, clone, retained iterators, structure dumps), branching from old versions, abandoned transactions, one-shot Tree.Insert/Delete; three key modes (dense fan-out under short stems, full byte range, structured alphabets with empty/prefix-related keys); every 6th case grows one node past 48 children and shrinks back; at the end every retained version and iterator is re-read. Non-trivial = every generated case (all contain writes and reads); distinct = sha256 of the op list",
        "trusted_base": COMMON_TB + [
            "Model.Art is a hand-written model of part/txn.go, node.go, iterator.go, tree.go; it is tied to the code by comparing, on every run, return values, iteration results, watch-channel identities (canonicalised by hand-out order), closed-channel sets and full structure dumps (node kinds, compressed prefixes, leaf keys) after each operation",
            "node capacities / demotion thresholds / promote and merge conditions / txnID bumps are regenerated from the source",
            "Go memory aliasing is not modelled in Model.Art (values are immutable there); the stamp discipline is the subject of Model.Cow / C01",
        ],
        "assumptions": ["one transaction in flight per tree lineage; Notify only along one line of history (DESIGN.md note N4)", "keys shorter than 2^16 bytes"],
    },
    "C12": {
        "suites": ["part"],
        "lean_modules": ["SdbModel.Props.C12"],
        "level": "translation_validation",
        "facts_key": "art",
        "rule": "same part suite as C11; in addition watch channels are collected from the base version before each transaction (Get/Prefix/RootWatch on present and absent keys and prefixes, InsertWatch/ModifyWatch results) and their open/closed state is observed after commit, after notify and after abandon; oracle: must-close rules, closed-only-at-Notify, open-when-handed-out, root watch left open by no-change transactions",
        "trusted_base": COMMON_TB + [
            "Model.Art follows the code's clone / promote / demote / merge decisions for the watch and txn fields; closed-channel sets are compared exactly with the implementation after every operation",
        ],
        "assumptions": ["one notified transaction per tree lineage (a second Notify on a sibling branch closes the same channels again and panics: DESIGN.md note N4)",
                        "an InsertWatch channel obtained earlier in the same transaction for a key changed again in that transaction is not constrained (note N1)"],
    },
    "C17": {
        "suites": ["pmap"],
        "lean_modules": ["SdbModel.Props.C17"],
        "level": "translation_validation",
        "facts_key": "art",
        "rule": "pmap suite: a case = 40 (quick) / 120 (thorough) operations on part.Map[string,int] and part.Set[string] values applied to ANY earlier version (branching): Set, Delete, FromMap, Get, All, Prefix, LowerBound, Len, EqualKeys/SlowEqual, MapTxn (Set/Delete/Get/All/Len/Commit, used again after Commit), NewSet/Set/Delete/Has/Union/Difference/Equal, JSON and YAML round trips (ASCII-key cases); keys from a tiny alphabet so that empty/singleton/tree transitions and prefix-related keys are the norm; after every step earlier versions are re-read, at the end all of them. Non-trivial = every case; distinct = sha256 of op list",
        "trusted_base": COMMON_TB + [
            "Model.PMap (hand-written over Model.Art) is tied to part/map.go, set.go by comparing representation (empty/single/tree + structure dump), Len and every query result after each operation",
            "the JSON/YAML text layer (encoding/json, yaml.v3) is exercised on the Go side only; keys restricted to valid UTF-8 for round trips",
        ],
        "assumptions": ["values are not mutated by the user", "Set.All() is consumed completely (early break is outside the property)"],
    },
    "C13": {
        "suites": ["lpm"],
        "lean_modules": ["SdbModel.Props.C13"],
        "level": "translation_validation",
        "facts_key": "art",
        "rule": "lpm suite: a case = 1-5 (quick) / 1-8 (thorough) transactions of up to 25/80 operations on lpm.Trie (Insert, Delete, Lookup of full-length and arbitrary keys, LookupExact, All, Prefix, LowerBound, Len, retained iterators, structure dumps), branching from old versions and abandoned transactions; key widths 1, 2, 4 and 16 bytes, data bytes from an alphabet whose members diverge at every bit position, prefix lengths 0..max with re-use of stored keys at shorter/longer lengths; all versions and iterators re-read at the end. Non-trivial = every case; distinct = sha256 of op list",
        "trusted_base": COMMON_TB + [
            "Model.Lpm is a hand-written byte-level model of lpm/trie.go, iterator.go; tied by comparing every return value, iteration result and the full trie structure (keys, imaginary flags, children) after each operation",
            "Lookup with a key that is neither full-length nor stored is outside the property (note N2): compared with the model, not with the oracle",
        ],
        "assumptions": ["keys are produced by EncodeLPMKey (DecodeLPMKey panics otherwise)", "prefix lengths < 2^16"],
    },
}
