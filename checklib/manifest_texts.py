HOOK_COMMITS = ["87f9882"]

TEXTS = {
    "C18": {
        "engine": "lean-model+extract+harness",
        "design_ref": "4/C18",
        "technique": "Lean 4 theorems over a byte-level model of the encoders, parametric in the escape constants regenerated from the source; exhaustive+random differential check model vs. implementation",
        "text": "Injectivity, order preservation, prefix reflection and separability of the escape/composite encoding, big-endian integer order/injectivity and the LPM key round-trip are proved in Lean for all byte strings / all values (no bound), for any escape constants satisfying a decidable side condition that the constants extracted from the current source must discharge by `decide`. The model's executable definitions are compared with the real encoders on exhaustive small-key tables and random long keys on every run. Two clauses are false of the unchanged code and are proved false with concrete witnesses (known findings K1, K2); the remaining partial theorems state exactly what holds.",
        "note": "Trusts Lean's kernel, the extractor, the hand-written model of the composite layout / accessors / LPM key functions (tied by the correspondence run only), encoding/binary. composite_split assumes encoded primaries < 2^16 bytes.",
    },
}

# every property not in TEXTS/PROPS must be listed here with a reason
NOT_APPLICABLE = []
