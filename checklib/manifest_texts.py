HOOK_COMMITS = ["87f9882"]

TEXTS = {
    "C18": {
        "engine": "lean-model+extract+harness",
        "design_ref": "4/C18",
        "technique": "Lean 4 theorems over a byte-level model of the encoders, parametric in the escape constants regenerated from the source; exhaustive+random differential check model vs. implementation",
        "text": "Injectivity, order preservation, prefix reflection and separability of the escape/composite encoding, big-endian integer order/injectivity and the LPM key round-trip are proved in Lean for all byte strings / all values (no bound), for any escape constants satisfying a decidable side condition that the constants extracted from the current source must discharge by `decide`. The model's executable definitions are compared with the real encoders on exhaustive small-key tables and random long keys on every run. Two clauses are false of the unchanged code and are proved false with concrete witnesses (known findings K1, K2); the remaining partial theorems state exactly what holds.",
        "note": "Trusts Lean's kernel, the extractor, the hand-written model of the composite layout / accessors / LPM key functions (tied by the correspondence run only), encoding/binary. composite_split assumes encoded primaries < 2^16 bytes.",
    },
}

TEXTS.update({
    "C11": {
        "engine": "lean-model+extract+harness",
        "design_ref": "4/C11",
        "technique": "hand-written Lean 4 model of the adaptive radix tree (Model.Art) validated against part.Tree/Txn/Iterator by an exact differential check (values, iteration order, structure dumps) over generated transaction histories with retained versions; Go-map oracle; Lean theorems under construction",
        "text": "Every run executes generated histories (branching, abandoned transactions, clones, live iterators, all node sizes) on the real part package and on the Lean model and compares every observation including the full tree structure; a reference Go map decides the ordered-map and persistence clauses directly on the implementation. Theorems about Model.Art are listed in the evidence once proved; until the refinement proof is complete the claim is translation validation, not proof.",
        "note": "Model.Art is hand-written; the differential check is testing (generator quality bounds it). Aliasing is not representable in Model.Art (see C01 / Model.Cow).",
    },
    "C12": {
        "engine": "lean-model+extract+harness",
        "design_ref": "4/C12",
        "technique": "Model.Art tracks watch-channel identities, the per-transaction close set and the clone/promote/demote/merge decisions; closed-channel sets compared exactly with part after every operation; must-close / never-early oracle on the implementation",
        "text": "Watch behaviour is modelled exactly (channel handed out by each Get/Prefix/InsertWatch/RootWatch, set closed by Notify) and compared with the implementation after every step in both watch modes; the oracle states the property directly: channels of changed keys/prefixes and the root watch of a dirty transaction must be closed after Notify, nothing closes outside Notify, nothing handed out closed, no-change transactions leave the root watch open.",
        "note": "Translation validation until the path-closure theorem over Model.Art is finished. Precondition N4 (one notified transaction per lineage) and note N1 restrict the generator.",
    },
    "C17": {
        "engine": "lean-model+extract+harness",
        "design_ref": "4/C17",
        "technique": "Lean model of part.Map/part.Set representations over Model.Art, differential check incl. representation dumps over branching histories; Go-map oracle incl. JSON/YAML round trips",
        "text": "Operations are applied to arbitrary earlier versions; every result (contents, Len, representation empty/single/tree with structure) is compared with the Lean model and with a reference Go map; all earlier versions are re-read. Two genuine defects found this way were repaired (fix: commits 6975fac, 07c1ed8); their witnesses run first on every check.",
        "note": "Translation validation; the text layer of JSON/YAML is exercised in Go only.",
    },
})

TEXTS["C13"] = {
    "engine": "lean-model+extract+harness",
    "design_ref": "4/C13",
    "technique": "byte-level Lean 4 model of the LPM trie (Model.Lpm) validated against lpm.Trie/Txn/Iterator by an exact differential check incl. structure dumps; bit-string map oracle for longest-prefix, covered-prefix, ordering and persistence clauses",
    "text": "Generated histories over 1- to 16-byte keys with prefixes diverging at every bit are executed on the real lpm package and on the Lean model; all observations including the trie structure are compared, and a reference map from bit strings decides each clause of the property on the implementation. One genuine defect (Prefix returned a diverging subtree) was found and repaired.",
    "note": "Translation validation until the refinement theorems over Model.Lpm are finished.",
}

# every property not in TEXTS/PROPS must be listed here with a reason
NOT_APPLICABLE = []
