HOOK_COMMITS = ['87f9882', '1c3dfe2', '0d56a89', 'ee6a5bf', 'c3a75ff', 'a05dd9c', '30eebd5', 'f4ed4c5']

TEXTS = {
    "C18": {
        "engine": "lean-model+extract+harness",
        "design_ref": "4/C18",
        "technique": "Lean 4 theorems over a byte-level model of the encoders, parametric in the escape constants regenerated from the source; exhaustive+random differential check model vs. implementation",
        "text": "Injectivity, order preservation, prefix reflection and separability of the escape/composite encoding, big-endian integer order/injectivity and the LPM key round-trip are proved in Lean for all byte strings / all values (no bound), for any escape constants satisfying a decidable side condition that the constants extracted from the current source must discharge by `decide`. The model's executable definitions are compared with the real encoders on exhaustive small-key tables and random long keys on every run. Two clauses are false of the unchanged code and are proved false with concrete witnesses (known findings K1, K2); the remaining partial theorems state exactly what holds.",
        "note": "Trusts Lean's kernel, the extractor, the hand-written model of the composite layout / accessors / LPM key functions (tied by the correspondence run only), encoding/binary. composite_split assumes encoded primaries < 2^16 bytes.",
    },
}

TEXTS.update({
    "C11": {
        "engine": "lean-model+extract+harness",
        "design_ref": "4/C11",
        "technique": "hand-written Lean 4 model of the adaptive radix tree (Model.Art) validated against part.Tree/Txn/Iterator by an exact differential check (values, iteration order, structure dumps) over generated transaction histories with retained versions; Go-map oracle; Lean theorems under construction",
        "text": "Every run executes generated histories (branching, abandoned transactions, clones, live iterators, all node sizes) on the real part package and on the Lean model and compares every observation including the full tree structure; a reference Go map decides the ordered-map and persistence clauses directly on the implementation. Theorems about Model.Art are listed in the evidence once proved; until the refinement proof is complete the claim is translation validation, not proof.",
        "note": "Model.Art is hand-written; the differential check is testing (generator quality bounds it). Aliasing is not representable in Model.Art (see C01 / Model.Cow).",
    },
    "C12": {
        "engine": "lean-model+extract+harness",
        "design_ref": "4/C12",
        "technique": "Model.Art tracks watch-channel identities, the per-transaction close set and the clone/promote/demote/merge decisions; closed-channel sets compared exactly with part after every operation; must-close / never-early oracle on the implementation",
        "text": "Watch behaviour is modelled exactly (channel handed out by each Get/Prefix/InsertWatch/RootWatch, set closed by Notify) and compared with the implementation after every step in both watch modes; the oracle states the property directly: channels of changed keys/prefixes and the root watch of a dirty transaction must be closed after Notify, nothing closes outside Notify, nothing handed out closed, no-change transactions leave the root watch open.",
        "note": "Translation validation until the path-closure theorem over Model.Art is finished. Precondition N4 (one notified transaction per lineage) and note N1 restrict the generator.",
    },
    "C17": {
        "engine": "lean-model+extract+harness",
        "design_ref": "4/C17",
        "technique": "Lean model of part.Map/part.Set representations over Model.Art, differential check incl. representation dumps over branching histories; Go-map oracle incl. JSON/YAML round trips",
        "text": "Operations are applied to arbitrary earlier versions; every result (contents, Len, representation empty/single/tree with structure) is compared with the Lean model and with a reference Go map; all earlier versions are re-read. Two genuine defects found this way were repaired (fix: commits 6975fac, 07c1ed8); their witnesses run first on every check.",
        "note": "Translation validation; the text layer of JSON/YAML is exercised in Go only.",
    },
})

TEXTS["C13"] = {
    "engine": "lean-model+extract+harness",
    "design_ref": "4/C13",
    "technique": "byte-level Lean 4 model of the LPM trie (Model.Lpm) validated against lpm.Trie/Txn/Iterator by an exact differential check incl. structure dumps; bit-string map oracle for longest-prefix, covered-prefix, ordering and persistence clauses",
    "text": "Generated histories over 1- to 16-byte keys with prefixes diverging at every bit are executed on the real lpm package and on the Lean model; all observations including the trie structure are compared, and a reference map from bit strings decides each clause of the property on the implementation. One genuine defect (Prefix returned a diverging subtree) was found and repaired.",
    "note": "Translation validation until the refinement theorems over Model.Lpm are finished.",
}

_TABLE_TECH = "hand-written Lean 4 model of the table layer (Model.Table over abstract ordered maps + Model.Lpm) validated against statedb by an exact differential check of every API observation over generated transaction histories; independent reference oracle (Go maps + the property's definitions) on the implementation; Lean theorems under construction"
_TABLE_NOTE = "Translation validation until the theorems over Model.Table are finished; the differential check is testing, bounded by the generator. Watch-channel identities are not modelled at table level (decided by the oracle and by C12's model)."
for _pid, _txt in {
    "C01": "Every retained snapshot is re-queried through several indexes after later commits, aborts, pending writes and collector runs; its answers must equal the first answers (stability oracle) and the model's. The copy-on-write stamp discipline facts are regenerated from part/txn.go and lpm/trie.go. One genuine defect (shared lpmEntry tail) was found and repaired.",
    "C03": "Return values, errors and resulting contents of Insert/InsertWatch/Modify/Delete/DeleteAll/CompareAndSwap/CompareAndDelete, incl. writes to tables not held and through finished transactions, are compared with the model and with a keyed-map specification; guard revision 0 is a known finding (K5).",
    "C04": "Get/List/Prefix/LowerBound/All/NumObjects/ByRevision through primary, unique, non-unique multi-key and LPM indexes are compared with a specification computed from the table contents (none missing, none stale, ordering, de-duplication) inside write transactions and on snapshots, with empty keys and 0x00/0x01/0xff bytes. Two genuine defects (KeySet emptiness, List on the empty key) were found and repaired.",
    "C06": "For every watch variant the harness records the query's specified result; after each commit a channel whose query result changed must be closed, after an abort none may be newly closed, fresh snapshot queries must hand out open channels, and a newly closed channel implies a newer table revision (violated by K3, known finding). The ordering relative to the committer is decided by the sched suite.",
    "C07": "Change iterators created at arbitrary points are driven with ReadTxn and WriteTxn arguments, full / partial / no consumption and interleaved collector steps; delivered revisions must increase strictly and, whenever Next reported pending changes and the sequence was drained, replaying everything delivered must equal the snapshot; open watches must deliver nothing and be closed by the next changing commit.",
    "C08": "Collector runs (whole, or paused between the lock-free scan and the write transaction while the table changes) are driven through hooks; after a complete run the graveyard must hold exactly the deletions some open iterator created before them has not been handed, zero once all caught up or closed.",
    "C09": "After every operation the table revision on the transaction and on snapshots is compared with the specification: strictly increasing on success, unchanged by no-op deletes / rejected CAS/CAD / aborts, equal to the revision stored with the written object, ByRevision strictly ascending.",
    "C19": "Initialized / PendingInitializers on snapshots and write transactions over arbitrary orders of register / mark-done in committed and aborted transactions; the init watch must close exactly when a committed state is initialized. One genuine defect (sync.Once consumed by an aborted mark) was found and repaired.",
}.items():
    TEXTS[_pid] = {"engine": "lean-model+extract+harness", "design_ref": "4/" + _pid, "technique": _TABLE_TECH, "text": _txt, "note": _TABLE_NOTE}
TEXTS["C19"]["technique"] = "Lean 4 theorems over the initializer bookkeeping of Model.Table (register / mark-done / abort / commit) and the regenerated commit protocol (init watch closed after the root store); differential check of Initialized / PendingInitializers / init watch against statedb over generated histories and schedules"
TEXTS["C19"]["text"] = "Proved: Initialized iff no pending initializer (C19_initialized_iff_no_pending), register makes pending, mark-done removes exactly its own name and is idempotent, Abort has no effect and uncommitted changes are invisible, the commit rule for the init watch, monotonicity under mark-done, and (decided on the regenerated protocol) the init watch is closed only after the new root is visible. " + TEXTS["C19"]["text"]
TEXTS["C19"]["note"] = "Theorems are about Model.Table's initializer functions, which the table driver executes in the correspondence run; the init-watch identity across transactions is decided by the oracle and the sched suite."

_SCHED_TECH = "Lean 4 theorems (invariant by induction over all interleavings, unbounded threads and tables) over the abstract lock/commit protocol Model.Serial, whose order facts are decided on the protocol regenerated from the source by tools/extract; Lean interleaving model Model.Conc interpreting that regenerated protocol compared step by step with real goroutines driven through verif hooks; oracles for serial committed state, mutual exclusion, closed-implies-visible and enabledness"
_SCHED_NOTE = "Proof over Model.Serial + decided order facts on the regenerated protocol; the link Model.Serial <- Model.Conc is by those facts (no mechanised simulation), Model.Conc <-> code by the hook-scheduler correspondence (testing). Mutex / atomic pointer semantics and the atomicity of code between hook points are trusted."
for _pid, _txt in {
    "C02": "Proved for every reachable state of Model.Serial: the committed state changes only in a transaction's single store step, which sets all of its tables at once (C02_visibility_single_instant, C02_all_or_none); Abort stores nothing (C02_abort_no_trace, C02_table_abort_restores); readers are one atomic load (decided on the regenerated protocol). Correspondence: at every hook point inside WriteTxn / Commit / Abort / registerTable a fresh snapshot must equal the serial committed state (all writes of a commit or none, nothing uncommitted, nothing of an abort); the snapshot returned by Commit must be the state at its own commit point. Sequential abort-leaves-no-trace clauses come from the table suite.",
    "C05": "Proved for every reachable state of Model.Serial (any number of threads/tables, any interleaving): two transactions never hold one table (C05_table_mutex), a writer's loaded state equals the committed state of its tables for as long as it holds them (C05_writer_sees_latest), and the committed counter of every table equals the number of commits to it — no lost update (C05_no_lost_update). Correspondence: lock ownership observed at the per-mutex hooks must be exclusive; a writer must see the latest committed counter/revision of every table it holds; after every step the committed state must be the serial sum of all commits, also with tables registered while transactions are open. One genuine defect (table registered during an open transaction dropped, later Commit panics holding the root lock) was found and repaired.",
    "C10": "Proved for every reachable state of Model.Serial: if some transaction is unfinished some existing thread can step (C10_no_deadlock, by the ascending-order wait-chain argument); a blocked acquisition is blocked by another open transaction containing that table (C10_delayed_only_by_sharer); a transaction none of whose tables is held by others can take every one of its steps (C10_disjoint_never_blocked); the root mutex is a leaf lock and readers lock nothing (decided on the regenerated protocol). Correspondence: the harness releases only threads whose next acquisition is possible according to the lock state it observed; every released thread must reach its next hook point (so transactions on other tables and readers never wait), and whenever unfinished threads exist one must be enabled (no deadlock), with table lists in any order and with duplicates.",
}.items():
    TEXTS[_pid] = {"engine": "lean-model+extract+harness(hook scheduler)", "design_ref": "4/" + _pid, "technique": _SCHED_TECH, "text": _txt, "note": _SCHED_NOTE}

TEXTS["C20"] = {
    "engine": "lean-model+harness(synctest)",
    "design_ref": "4/C20",
    "technique": "Lean 4 theorems over a model of WatchSet.Wait as oracle-resolved blocking selects over virtual time (all environments, all oracles); differential check against the real WatchSet under testing/synctest; direct oracle for each clause (subset, closedness, exact removal, error reporting)",
    "text": "Generated sequences of Add/Clear/Wait with channels closing before and during the waits at chosen virtual instants, settle windows and context deadlines are executed on the real WatchSet in a synctest bubble and on the model; returned sets, error flags, return times and the set afterwards (Has for every channel) are compared, and each clause of the property is checked directly on the implementation.",
    "note": "Theorems hold for every environment, settle time and every select-oracle that picks a ready case (C20_returned_members_closed, C20_set_minus_returned, C20_empty_result_only_with_ctx_error). The 'returns once a member is closed / waits at most settle' timing clause is decided by the correspondence run only. reflect.Select / timers / context are modelled by their documented behaviour.",
}

_REC_TECH = "Lean 4 model of the retry queue / backoff / timer state machine, single-mode rounds and status commit (Model.Reconciler); the real reconciler runs under testing/synctest and is compared step by step (target calls, statuses, low-watermark); direct oracles for convergence, status write-back and retry pacing; Lean theorems over the model for the backoff arithmetic, retry bookkeeping, low-watermark and the status-commit rule (C15, C16); C14 convergence by correspondence + oracle"
_REC_NOTE = "C15/C16: theorems about every retryAdd / retryClear / resetTimer / commitOne step of Model.Reconciler (listed in the evidence); whole-history clauses (convergence, pacing across rounds) are decided by the correspondence run and the oracle. Batch mode is decided by the oracle only. Known finding K4 (retry result dropped after a foreign status-only write) is reported, not fixed."
for _pid, _txt in {
    "C14": "After failures stop and the table is quiet for more than four maximal backoffs the target must equal the table (last successful call per live object an Update with its latest data, status Done; removed objects deleted), for round sizes 1..1000, single and batch operations, arbitrary failure patterns and writes injected while an Update is in flight.",
    "C15": "At every quiet point: Done only for data the target actually holds, Error only for a version whose last Update failed, no deleted object re-created, no user or foreign field changed by a status write, no Update for an object whose status is Done. One genuine defect (a retry's status commit overwrote a foreign status-only change with the stale original object) was found and repaired.",
    "C16": "Consecutive failed attempts on one object without a change or success in between must be at least the minimum backoff apart with non-shrinking waits; the low-watermark reported by WaitUntilReconciled is compared with the model after every step and must be zero once nothing awaits retry.",
}.items():
    TEXTS[_pid] = {"engine": "lean-model+harness(synctest)", "design_ref": "4/" + _pid, "technique": _REC_TECH, "text": _txt, "note": _REC_NOTE}

# every property not in TEXTS/PROPS must be listed here with a reason
NOT_APPLICABLE = []
