#!/usr/bin/env python3
"""Regenerates MANIFEST.json from checklib/props.py + checklib/manifest_texts.py."""
import json, os, sys
ROOT = os.path.dirname(os.path.dirname(os.path.abspath(__file__)))
sys.path.insert(0, os.path.join(ROOT, "checklib"))
from props import PROPS
from manifest_texts import TEXTS, NOT_APPLICABLE, HOOK_COMMITS

checks = []
for pid in sorted(PROPS):
    t = TEXTS[pid]
    checks.append({
        "property_id": pid,
        "quick_cmd": f"./check {pid} --tier quick",
        "thorough_cmd": f"./check {pid} --tier thorough",
        "evidence_file": f"evidence/{pid}.json",
        "replay_cmd_template": f"./check {pid} --replay {{path}}",
        "engine": t["engine"],
        "level_claimed": {"category": PROPS[pid]["level"], "text": t["text"], "design_ref": t["design_ref"]},
        "level_note": t["note"],
        "technique": t["technique"],
    })
all_ids = [json.loads(l)["id"] for l in open(os.path.join(ROOT, "properties.jsonl"))]
na = list(NOT_APPLICABLE)
for pid in all_ids:
    if pid not in PROPS and pid not in [x["property_id"] for x in na]:
        na.append({"property_id": pid, "reason": "not claimed in this revision: the Lean model / correspondence harness for this property is not finished yet (technique applies; see DESIGN.md section 4)"})
m = {
    "version": 1,
    "setup_cmd": "./setup.sh",
    "hooks": {
        "guard": "verif",
        "enable": "go build -tags verif (harness module with `replace github.com/cilium/statedb => /repo`)",
        "baseline_off_cmd": "cd /repo && GOFLAGS=-mod=mod go test -json -vet=off -count=1 -timeout 25m ./...",
        "source_commits": HOOK_COMMITS,
        "add_only": True,
    },
    "engines": [
        {"name": "lean-model", "path": "lean/", "serves_properties": sorted(PROPS), "kind_free_text": "Lean 4 model (SdbModel/Model), theorems (SdbModel/Props), generated parameters (SdbModel/Generated), line-protocol driver (Driver/)"},
        {"name": "extract", "path": "tools/extract/", "serves_properties": sorted(PROPS), "kind_free_text": "go/ast fact extractor regenerating lean/SdbModel/Generated/*.lean from /repo on every run"},
        {"name": "harness", "path": "harness/", "serves_properties": sorted(PROPS), "kind_free_text": "Go harness linking the real packages (-tags verif), generators, executors, property oracles, ddmin shrinker"},
    ],
    "checks": checks,
    "not_applicable": na,
    "notes": "Technique: machine-checked proof in Lean 4 over a model tied to /repo by (a) regenerated parameters (tools/extract) and (b) a correspondence check between the model's executable definitions and the implementation. See DESIGN.md.",
}
json.dump(m, open(os.path.join(ROOT, "MANIFEST.json"), "w"), indent=1)
print("MANIFEST.json:", len(checks), "checks,", len(na), "not claimed")
