#!/bin/sh
# Build the framework offline from files on disk: extractor, Lean model+proofs+driver, Go harness.
set -e
cd "$(dirname "$0")"
export GOFLAGS=-mod=mod GOPROXY=off
[ "$GOSUMDB" = "off" ] && unset GOSUMDB
[ "$GOTOOLCHAIN" = "local" ] && unset GOTOOLCHAIN
mkdir -p bin work evidence replays
(cd tools/extract && go build -o ../../bin/extract .)
./bin/extract "${VERIF_REPO:-/repo}" lean/SdbModel/Generated work/facts.json
(cd lean && lake build SdbModel SdbModel.AuditCmd driver)
# all theorem modules in one parallel build, so that no check has to wait for its proofs to compile
(cd lean && lake build $(ls SdbModel/Props/*.lean | sed 's#/#.#g; s#\.lean$##'))
cp "${VERIF_REPO:-/repo}/go.sum" harness/go.sum
(cd harness && go build -tags verif -o ../bin/harness . && go test -c -tags verif -o ../bin/harness.test .)
echo setup-ok
