#!/bin/bash
# confirm_mutant.sh <Cxx> <a|b>: confirm a seeded change in a scratch worktree of /repo HEAD:
#   suite passes with the change, demo fails with it, demo passes without it.
# Writes /verif/seeded/<Cxx><v>/{patch.diff,<demo>,meta.json}. Removes the worktree afterwards.
set -u
ID=$1; V=$2
SRC=${SEEDED_SRC:-/tmp/wt/out}/$ID/$V
WT=/tmp/confirm/$ID$V
OUT=/verif/seeded/$ID$V
export GOFLAGS=-mod=mod GOPROXY=off
mkdir -p /tmp/confirm "$OUT"
git -C /repo worktree remove --force "$WT" 2>/dev/null
git -C /repo worktree add -q --detach "$WT" HEAD || exit 2
cd "$WT"
PATCH="$SRC/patch.diff"
# a patch ported to the current /repo HEAD (hooks + fixes) takes precedence
if [ -f "$OUT/patch.diff" ] && ! git apply --check "$SRC/patch.diff" 2>/dev/null; then PATCH="$OUT/patch.diff"; else cp "$SRC/patch.diff" "$OUT/patch.diff"; fi
cp "$PATCH" /tmp/confirm/$ID$V.patch
DEMO=$(find "$SRC" -name '*_test.go' | head -1)
DEMOBASE=$(basename "$DEMO")
# find where the demo goes: notes.md / demo_path.txt mention the path; default by package clause
PKG=$(grep -m1 '^package ' "$DEMO" | awk '{print $2}')
case "$PKG" in
  statedb|statedb_test) DIR=. ;;
  part|part_test) DIR=part ;;
  lpm|lpm_test) DIR=lpm ;;
  reconciler|reconciler_test) DIR=reconciler ;;
  index|index_test) DIR=index ;;
  internal|internal_test) DIR=internal ;;
  *) DIR=. ;;
esac
cp "$DEMO" "$OUT/$DEMOBASE"
APPLY=ok
git apply /tmp/confirm/$ID$V.patch || APPLY=fail
SUITE=skip; DEMO_WITH=skip; DEMO_WITHOUT=skip
if [ $APPLY = ok ]; then
  if go build ./... >/dev/null 2>&1 && go test -vet=off -count=1 ./... > "$OUT/suite_with.log" 2>&1; then SUITE=pass; else
    # flaky tests exist on the unchanged tree (TestDerive, TestMultipleReconcilersPerModuleMetrics under load): one more try
    if go test -vet=off -count=1 ./... > "$OUT/suite_with.log" 2>&1; then SUITE=pass; else SUITE=fail; fi
  fi
  cp "$DEMO" "$DIR/$DEMOBASE"
  if go test -vet=off -count=1 -run 'Seeded' ./$DIR/ > "$OUT/demo_with.log" 2>&1; then DEMO_WITH=pass; else DEMO_WITH=fail; fi
  git apply -R /tmp/confirm/$ID$V.patch
  if go test -vet=off -count=1 -run 'Seeded' ./$DIR/ > "$OUT/demo_without.log" 2>&1; then DEMO_WITHOUT=pass; else DEMO_WITHOUT=fail; fi
fi
cd /
git -C /repo worktree remove --force "$WT"
python3 - "$ID" "$V" "$APPLY" "$SUITE" "$DEMO_WITH" "$DEMO_WITHOUT" "$DIR/$DEMOBASE" "$SRC" <<'PY'
import json,sys,os,re
ID,V,APPLY,SUITE,DW,DWO,demo,src=sys.argv[1:]
out=f"/verif/seeded/{ID}{V}"
notes=open(f"{src}/notes.md").read() if os.path.exists(f"{src}/notes.md") else ""
meta={"id":f"{ID}{V}","property":ID,"patch":"patch.diff","demo":demo,
 "confirmed":{"applies_to_repo_head":APPLY,"suite_with_change":SUITE,"demo_with_change":DW,"demo_without_change":DWO,
   "how":"tools/confirm_mutant.sh in a scratch worktree of /repo HEAD (hooks + fix commits included): go test -vet=off -count=1 ./... with the change; go test -run Seeded on the demo with and without the change"},
 "valid": APPLY=="ok" and SUITE=="pass" and DW=="fail" and DWO=="pass",
 "needs_to_manifest_and_notes": notes[:3000]}
json.dump(meta,open(out+"/meta.json","w"),indent=1)
print(ID+V, APPLY, SUITE, DW, DWO)
PY
