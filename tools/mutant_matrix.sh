#!/bin/bash
# mutant_matrix.sh [ids...]: run every seeded change against the check of its own property; results in seeded/MATRIX.txt
cd /verif
ids="$@"; [ -z "$ids" ] && ids=$(ls seeded | grep -E '^C[0-9]{2}[ab]$')
for m in $ids; do
  p=${m:0:3}
  r=$(tools/run_mutant.sh $m $p 2>&1 | tail -1)
  echo "$r" | tee -a /tmp/matrix.txt
done
