#!/bin/bash
# mutant_matrix.sh [ids...]: run every seeded change against the check of its own property; one line per change
# on stdout and in MATRIX.txt next to this script's parent (honours VERIF_REPO)
cd "$(dirname "$0")/.."
ids="$@"; [ -z "$ids" ] && ids=$(ls seeded | grep -E '^C[0-9]{2}[a-z]$')
: > MATRIX.txt
for m in $ids; do
  p=${m:0:3}
  r=$(tools/run_mutant.sh $m $p 2>&1 | tail -1)
  echo "$r" | tee -a MATRIX.txt
done
