package main

import (
	"bytes"
	"fmt"
	"go/ast"
	"go/printer"
	"path/filepath"
	"strings"
)

func init() { extractors = append(extractors, extractProto) }

func stmtText(n ast.Node) string {
	var b bytes.Buffer
	printer.Fprint(&b, fset, n)
	return b.String()
}

// tokens that make a statement protocol-relevant
var protoTokens = []string{"db.root.", "db.mu.", ".smus.", ".notify()", "close(", "verifHook(", "returnToPool", "slices.Clone(*txn.oldRoot)", "commit()"}

func relevant(s string) bool {
	for _, t := range protoTokens {
		if strings.Contains(s, t) {
			return true
		}
	}
	return false
}

// classify one top-level statement of a protocol function into zero or more steps
func classify(fn string, st ast.Stmt) ([]string, bool) {
	txt := stmtText(st)
	one := func(s string) ([]string, bool) { return []string{s}, true }
	switch x := st.(type) {
	case *ast.ExprStmt:
		call, ok := x.X.(*ast.CallExpr)
		if !ok {
			break
		}
		f := exprString(call.Fun)
		switch f {
		case "verifHook":
			return one("hook:" + strings.Trim(exprString(call.Args[0]), "\""))
		case "txn.smus.Lock":
			return one("lockTables")
		case "txn.smus.Unlock":
			return one("unlockTables")
		case "db.mu.Lock":
			return one("lockRoot")
		case "db.mu.Unlock":
			return one("unlockRoot")
		case "db.root.Store":
			return one("storeRoot")
		case "handle.returnToPool":
			return one("returnToPool")
		}
	case *ast.DeferStmt:
		if exprString(x.Call.Fun) == "db.mu.Unlock" {
			return one("defer:unlockRoot")
		}
	case *ast.AssignStmt:
		if len(x.Rhs) == 1 {
			r := exprString(x.Rhs[0])
			switch {
			case r == "db.root.Load()" && exprString(x.Lhs[0]) == "txn.oldRoot":
				return one("loadRoot")
			case r == "*db.root.Load()":
				return one("loadCurrentRoot")
			case r == "slices.Clone(*db.root.Load())":
				return one("loadCurrentRoot")
			case r == "slices.Clone(*txn.oldRoot)":
				return one("cloneRoot")
			case strings.HasPrefix(r, "slices.DeleteFunc(slices.Clone(tables)"):
				return one("dedupTables")
			case r == "append(root,table.tableEntry())":
				return one("appendTable")
			}
		}
	case *ast.RangeStmt, *ast.ForStmt:
		switch {
		case strings.Contains(txt, "idx.commit()"):
			return one("commitIndexes")
		case strings.Contains(txt, "root[pos] = currentRoot[pos]"):
			steps := []string{"mergeUnlocked"}
			if strings.Contains(txt, "initChansToClose = append") {
				steps = append(steps, "collectInit")
			}
			return steps, true
		case strings.Contains(txt, "txn.notify()"):
			return one("notify")
		case strings.Contains(txt, "close(ch)") && strings.Contains(txt, "initChansToClose"):
			return one("closeInit")
		case strings.Contains(txt, "tableEntryCopy"):
			return one("cloneEntries")
		}
	}
	if relevant(txt) {
		return nil, false
	}
	return nil, true // irrelevant statement (metrics, time bookkeeping, ...)
}

func protoSteps(f *ast.File, name, recv, label string) []string {
	fd := findFunc(f, name, recv)
	if fd == nil {
		fail("%s: func not found", label)
	}
	var steps []string
	var deferred []string
	for _, st := range fd.Body.List {
		ss, ok := classify(label, st)
		if !ok {
			fail("%s: protocol-relevant statement not recognised at top level (the order of protocol steps can no longer be read off the source):\n%s", label, stmtText(st))
		}
		for _, s := range ss {
			if strings.HasPrefix(s, "defer:") {
				deferred = append(deferred, strings.TrimPrefix(s, "defer:"))
			} else {
				steps = append(steps, s)
			}
		}
	}
	for i := len(deferred) - 1; i >= 0; i-- {
		steps = append(steps, deferred[i])
	}
	return steps
}

func leanActs(steps []string) string {
	parts := make([]string, len(steps))
	for i, s := range steps {
		if strings.HasPrefix(s, "hook:") {
			parts[i] = fmt.Sprintf(".hook %q", strings.TrimPrefix(s, "hook:"))
		} else {
			parts[i] = "." + s
		}
	}
	return "[" + strings.Join(parts, ", ") + "]"
}

func extractProto(repo string, facts Facts) (string, string) {
	fdb := parse(filepath.Join(repo, "db.go"))
	fw := parse(filepath.Join(repo, "write_txn.go"))
	fi := parse(filepath.Join(repo, "internal", "sortable_mutex.go"))

	wtxn := protoSteps(fdb, "WriteTxn", "DB", "db.go: DB.WriteTxn")
	reg := protoSteps(fdb, "registerTable", "DB", "db.go: DB.registerTable")
	commit := protoSteps(fw, "Commit", "writeTxnHandle", "write_txn.go: writeTxnHandle.Commit")
	abort := protoSteps(fw, "Abort", "writeTxnHandle", "write_txn.go: writeTxnHandle.Abort")

	// DB.ReadTxn is a single atomic load
	rt := findFunc(fdb, "ReadTxn", "DB")
	readIsLoad := rt != nil && len(rt.Body.List) == 1 && strings.Contains(stmtText(rt.Body.List[0]), "db.root.Load()")

	// SortableMutexes.Lock: sort by Seq, then lock in slice order; Unlock in slice order
	lk := findFunc(fi, "Lock", "SortableMutexes")
	sortsBySeq, locksInOrder := false, false
	if lk != nil {
		t := stmtText(lk.Body)
		sortsBySeq = strings.Contains(t, "slices.SortFunc(s") && strings.Contains(t, "cmp.Compare(a.Seq(), b.Seq())")
		i := strings.Index(t, "slices.SortFunc")
		j := strings.Index(t, "mu.Lock()")
		locksInOrder = i >= 0 && j > i && strings.Contains(t, "for _, mu := range s")
	}
	// calls made while db.mu is held in Commit must be non-blocking: list them
	var critical []string
	in := false
	for _, s := range commit {
		if s == "lockRoot" {
			in = true
			continue
		}
		if s == "unlockRoot" {
			in = false
		}
		if in && !strings.HasPrefix(s, "hook:") {
			critical = append(critical, s)
		}
	}
	facts["protocol"] = map[string]any{
		"WriteTxn": wtxn, "Commit": commit, "Abort": abort, "registerTable": reg,
		"ReadTxn_is_single_load": readIsLoad, "Lock_sorts_by_seq": sortsBySeq, "Lock_locks_in_slice_order": locksInOrder,
		"commit_critical_section": critical,
	}
	b2s := func(b bool) string {
		if b {
			return "true"
		}
		return "false"
	}
	var b strings.Builder
	b.WriteString("-- GENERATED by tools/extract from the current source (db.go, write_txn.go, internal/sortable_mutex.go). Do not edit.\n")
	b.WriteString("import SdbModel.Model.Conc\nnamespace Sdb.Gen\nopen Sdb.Conc.Act in\n")
	fmt.Fprintf(&b, "def protocol : Conc.Protocol := {\n  writeTxn := %s,\n  commit := %s,\n  abort := %s,\n  register := %s,\n  readIsSingleLoad := %s, lockSortsBySeq := %s, lockInOrder := %s }\n",
		leanActs(wtxn), leanActs(commit), leanActs(abort), leanActs(reg), b2s(readIsLoad), b2s(sortsBySeq), b2s(locksInOrder))
	b.WriteString("end Sdb.Gen\n")
	return "Protocol.lean", b.String()
}
