// extract: reads the current source of cilium/statedb and regenerates the
// Lean files holding everything the proofs treat as parameters of the code
// (T-gen, DESIGN.md 2.2).  usage: extract <repo> <lean Generated dir> <facts.json>
//
// It fails loudly (exit 1) when the source no longer has the recognised shape:
// that is a broken tie, handled by ./check.
package main

import (
	"encoding/json"
	"fmt"
	"go/ast"
	"go/parser"
	"go/token"
	"os"
	"path/filepath"
	"strconv"
	"strings"
)

var fset = token.NewFileSet()

type Facts map[string]any

func fail(format string, args ...any) {
	fmt.Fprintf(os.Stderr, "extract: "+format+"\n", args...)
	os.Exit(1)
}

func parse(path string) *ast.File {
	f, err := parser.ParseFile(fset, path, nil, parser.ParseComments)
	if err != nil {
		fail("parse %s: %v", path, err)
	}
	return f
}

func findFunc(f *ast.File, name string, recv string) *ast.FuncDecl {
	for _, d := range f.Decls {
		fd, ok := d.(*ast.FuncDecl)
		if !ok || fd.Name.Name != name {
			continue
		}
		if recv == "" && fd.Recv == nil {
			return fd
		}
		if recv != "" && fd.Recv != nil && len(fd.Recv.List) == 1 {
			if strings.Contains(exprString(fd.Recv.List[0].Type), recv) {
				return fd
			}
		}
	}
	return nil
}

func exprString(e ast.Expr) string {
	switch x := e.(type) {
	case *ast.Ident:
		return x.Name
	case *ast.StarExpr:
		return "*" + exprString(x.X)
	case *ast.SelectorExpr:
		return exprString(x.X) + "." + x.Sel.Name
	case *ast.IndexExpr:
		return exprString(x.X) + "[" + exprString(x.Index) + "]"
	case *ast.IndexListExpr:
		return exprString(x.X) + "[...]"
	case *ast.CallExpr:
		args := []string{}
		for _, a := range x.Args {
			args = append(args, exprString(a))
		}
		return exprString(x.Fun) + "(" + strings.Join(args, ",") + ")"
	case *ast.BasicLit:
		return x.Value
	case *ast.UnaryExpr:
		return x.Op.String() + exprString(x.X)
	case *ast.BinaryExpr:
		return exprString(x.X) + x.Op.String() + exprString(x.Y)
	case *ast.ParenExpr:
		return "(" + exprString(x.X) + ")"
	case *ast.CompositeLit:
		return exprString(x.Type) + "{...}"
	case *ast.ArrayType:
		return "[]" + exprString(x.Elt)
	case *ast.FuncLit:
		return "func{...}"
	case *ast.SliceExpr:
		return exprString(x.X) + "[:]"
	case *ast.TypeAssertExpr:
		return exprString(x.X) + ".(type)"
	case *ast.KeyValueExpr:
		return exprString(x.Key) + ":" + exprString(x.Value)
	case nil:
		return ""
	}
	return fmt.Sprintf("<%T>", e)
}

// intConsts collects untyped integer constants of a file.
func intConsts(f *ast.File) map[string]int {
	out := map[string]int{}
	for _, d := range f.Decls {
		gd, ok := d.(*ast.GenDecl)
		if !ok || gd.Tok != token.CONST {
			continue
		}
		for _, s := range gd.Specs {
			vs := s.(*ast.ValueSpec)
			for i, n := range vs.Names {
				if i < len(vs.Values) {
					if bl, ok := vs.Values[i].(*ast.BasicLit); ok && bl.Kind == token.INT {
						v, err := strconv.ParseInt(bl.Value, 0, 64)
						if err == nil {
							out[n.Name] = int(v)
						}
					}
				}
			}
		}
	}
	return out
}

func evalInt(e ast.Expr, consts map[string]int) (int, bool) {
	switch x := e.(type) {
	case *ast.BasicLit:
		v, err := strconv.ParseInt(x.Value, 0, 64)
		return int(v), err == nil
	case *ast.Ident:
		v, ok := consts[x.Name]
		return v, ok
	}
	return 0, false
}

func leanList(xs []int) string {
	ss := make([]string, len(xs))
	for i, x := range xs {
		ss[i] = strconv.Itoa(x)
	}
	return "[" + strings.Join(ss, ", ") + "]"
}

// ---------------------------------------------------------------------------
// EncParams: part_index.go escape constants + appendEncode switch table;
// index/int.go: which unsigned encoder index.Int ends up in.

func extractEnc(repo string, facts Facts) string {
	f := parse(filepath.Join(repo, "part_index.go"))
	consts := intConsts(f)
	sep, ok1 := consts["nonUniqueSeparator"]
	sub, ok2 := consts["nonUniqueSubstitute"]
	if !ok1 || !ok2 {
		fail("part_index.go: nonUniqueSeparator/nonUniqueSubstitute constants not found")
	}
	fd := findFunc(f, "appendEncode", "")
	if fd == nil {
		fail("part_index.go: func appendEncode not found")
	}
	var sw *ast.SwitchStmt
	ast.Inspect(fd.Body, func(n ast.Node) bool {
		if s, ok := n.(*ast.SwitchStmt); ok && sw == nil {
			sw = s
		}
		return true
	})
	if sw == nil {
		fail("appendEncode: switch statement not found")
	}
	images := map[int][]int{}
	defaultIdentity := false
	for _, c := range sw.Body.List {
		cc := c.(*ast.CaseClause)
		// find `dst = append(dst, a, b, ...)`
		var appended []ast.Expr
		for _, st := range cc.Body {
			as, ok := st.(*ast.AssignStmt)
			if !ok || len(as.Rhs) != 1 {
				continue
			}
			call, ok := as.Rhs[0].(*ast.CallExpr)
			if !ok || exprString(call.Fun) != "append" || len(call.Args) < 2 {
				continue
			}
			appended = call.Args[1:]
		}
		if appended == nil {
			fail("appendEncode: case without dst = append(dst, ...)")
		}
		if cc.List == nil {
			// default: must append the byte itself
			if len(appended) == 1 && exprString(appended[0]) == exprString(sw.Tag) {
				defaultIdentity = true
			} else {
				fail("appendEncode: default case is not the identity: append(%s)", exprString(appended[0]))
			}
			continue
		}
		var img []int
		for _, a := range appended {
			v, ok := evalInt(a, consts)
			if !ok {
				fail("appendEncode: cannot evaluate appended byte %s", exprString(a))
			}
			img = append(img, v)
		}
		for _, ce := range cc.List {
			v, ok := evalInt(ce, consts)
			if !ok {
				fail("appendEncode: cannot evaluate case %s", exprString(ce))
			}
			images[v] = img
		}
	}
	if !defaultIdentity {
		fail("appendEncode: no identity default case")
	}
	if len(images) != 2 || images[sep] == nil || images[sub] == nil {
		fail("appendEncode: expected exactly the cases {separator, substitute}, got %v", images)
	}

	// encodeNonUniqueKey layout facts: order of appended parts
	fk := findFunc(f, "encodeNonUniqueKey", "")
	if fk == nil {
		fail("part_index.go: encodeNonUniqueKey not found")
	}
	var layout []string
	ast.Inspect(fk.Body, func(n ast.Node) bool {
		call, ok := n.(*ast.CallExpr)
		if !ok {
			return true
		}
		switch exprString(call.Fun) {
		case "appendEncode":
			layout = append(layout, "enc("+exprString(call.Args[1])+")")
		case "append":
			if len(call.Args) == 2 {
				layout = append(layout, "byte("+exprString(call.Args[1])+")")
			}
		case "binary.BigEndian.AppendUint16":
			layout = append(layout, "u16("+exprString(call.Args[1])+")")
		}
		return true
	})
	wantLayout := []string{"enc(secondary)", "byte(0x00)", "enc(primary)", "u16(uint16(primaryLen))"}
	// ast.Inspect visits the return statement's call first for nested calls;
	// normalise by sorting into source order using positions instead.
	layout = layoutInSourceOrder(fk)
	if strings.Join(layout, " ") != strings.Join(wantLayout, " ") {
		fail("encodeNonUniqueKey: layout changed: got %v want %v (the hand model Model.Enc.composite must be revisited)", layout, wantLayout)
	}

	// index/int.go
	fi := parse(filepath.Join(repo, "index", "int.go"))
	widthOf := func(name string) int {
		// follow delegation chain Int -> Int32 -> Uint32 -> AppendUint32
		seen := 0
		for seen < 6 {
			seen++
			fd := findFunc(fi, name, "")
			if fd == nil || len(fd.Body.List) != 1 {
				fail("index/int.go: func %s not of the single-return shape", name)
			}
			ret, ok := fd.Body.List[0].(*ast.ReturnStmt)
			if !ok || len(ret.Results) != 1 {
				fail("index/int.go: func %s: not a single return", name)
			}
			call, ok := ret.Results[0].(*ast.CallExpr)
			if !ok {
				fail("index/int.go: func %s: return is not a call", name)
			}
			fn := exprString(call.Fun)
			switch fn {
			case "binary.BigEndian.AppendUint64":
				return 8
			case "binary.BigEndian.AppendUint32":
				return 4
			case "binary.BigEndian.AppendUint16":
				return 2
			}
			name = fn
		}
		fail("index/int.go: delegation chain too long")
		return 0
	}
	intBytes := widthOf("Int")
	for name, w := range map[string]int{"Uint64": 8, "Uint32": 4, "Uint16": 2, "Int64": 8, "Int32": 4, "Int16": 2} {
		if got := widthOf(name); got != w {
			fail("index/int.go: %s encodes %d bytes, expected %d (Model.Enc.encUint/encInt widths must be revisited)", name, got, w)
		}
	}

	facts["enc"] = map[string]any{
		"sep": sep, "sub": sub, "escSep": images[sep], "escSub": images[sub],
		"composite_layout": layout, "index_Int_bytes": intBytes, "platform_int_bytes": strconv.IntSize / 8,
	}
	var b strings.Builder
	b.WriteString("-- GENERATED by tools/extract from the current source (part_index.go, index/int.go). Do not edit.\n")
	b.WriteString("import SdbModel.Model.Enc\nnamespace Sdb.Gen\n")
	fmt.Fprintf(&b, "def encParams : EncParams := { sep := %d, sub := %d, escSep := %s, escSub := %s }\n", sep, sub, leanList(images[sep]), leanList(images[sub]))
	fmt.Fprintf(&b, "def intParams : IntParams := { intDelegateBytes := %d, platformIntBytes := %d }\n", intBytes, strconv.IntSize/8)
	b.WriteString("end Sdb.Gen\n")
	return b.String()
}

func layoutInSourceOrder(fk *ast.FuncDecl) []string {
	type item struct {
		pos token.Pos
		s   string
	}
	var items []item
	ast.Inspect(fk.Body, func(n ast.Node) bool {
		call, ok := n.(*ast.CallExpr)
		if !ok {
			return true
		}
		switch exprString(call.Fun) {
		case "appendEncode":
			items = append(items, item{call.Pos(), "enc(" + exprString(call.Args[1]) + ")"})
		case "append":
			if len(call.Args) == 2 {
				items = append(items, item{call.Pos(), "byte(" + exprString(call.Args[1]) + ")"})
			}
		case "binary.BigEndian.AppendUint16":
			items = append(items, item{call.Pos(), "u16(" + exprString(call.Args[1]) + ")"})
		}
		return true
	})
	for i := range items {
		for j := i + 1; j < len(items); j++ {
			if items[j].pos < items[i].pos {
				items[i], items[j] = items[j], items[i]
			}
		}
	}
	out := make([]string, len(items))
	for i, it := range items {
		out[i] = it.s
	}
	return out
}

func writeIfChanged(path, content string) {
	old, err := os.ReadFile(path)
	if err == nil && string(old) == content {
		return
	}
	if err := os.WriteFile(path, []byte(content), 0o644); err != nil {
		fail("write %s: %v", path, err)
	}
}

func main() {
	if len(os.Args) != 4 {
		fail("usage: extract <repo> <Generated dir> <facts.json>")
	}
	repo, gen, factsPath := os.Args[1], os.Args[2], os.Args[3]
	facts := Facts{}
	files := map[string]string{}
	files["EncParams.lean"] = extractEnc(repo, facts)
	for _, e := range extractors {
		name, content := e(repo, facts)
		files[name] = content
	}
	// delete stale generated files, then write (only when changed, to keep
	// lake's cache effective)
	entries, _ := os.ReadDir(gen)
	for _, e := range entries {
		if _, ok := files[e.Name()]; !ok && strings.HasSuffix(e.Name(), ".lean") {
			os.Remove(filepath.Join(gen, e.Name()))
		}
	}
	for name, content := range files {
		writeIfChanged(filepath.Join(gen, name), content)
	}
	b, _ := json.MarshalIndent(facts, "", " ")
	os.WriteFile(factsPath, b, 0o644)
}

var extractors []func(repo string, facts Facts) (string, string)
