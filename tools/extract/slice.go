package main

import (
	"fmt"
	"go/ast"
	"path/filepath"
	"strings"
)

func init() { extractors = append(extractors, extractSlice) }

// extractSlice: what lpmEntry.upsert / delete (lpm_index.go) do with `e.tail`, the slice whose
// backing array is shared by the entries of earlier snapshots.
func extractSlice(repo string, facts Facts) (string, string) {
	const file = "lpm_index.go"
	f := parse(filepath.Join(repo, "lpm_index.go"))
	onlyFresh, neverDst, neverIdx := true, true, true
	var notes []string
	note := func(format string, a ...any) { notes = append(notes, fmt.Sprintf(format, a...)) }
	isTail := func(e ast.Expr) bool {
		// e.tail, e.tail[...], e.tail[a:b]
		for {
			switch x := e.(type) {
			case *ast.SliceExpr:
				e = x.X
				continue
			case *ast.IndexExpr:
				e = x.X
				continue
			case *ast.ParenExpr:
				e = x.X
				continue
			}
			break
		}
		return exprString(e) == "e.tail"
	}
	dstFuncs := map[string]bool{"append": true, "copy": true, "slices.Insert": true, "slices.Delete": true, "slices.Replace": true,
		"slices.Grow": true, "slices.Sort": true, "slices.SortFunc": true, "slices.SortStableFunc": true, "slices.Reverse": true,
		"sort.Slice": true, "sort.SliceStable": true, "slices.Compact": true, "slices.CompactFunc": true, "slices.DeleteFunc": true, "clear": true}
	found := 0
	for _, name := range []string{"upsert", "delete"} {
		fd := findFunc(f, name, "lpmEntry")
		if fd == nil {
			fail("%s: lpmEntry.%s not found", file, name)
		}
		found++
		// local slices made in this function
		fresh := map[string]bool{}
		ast.Inspect(fd.Body, func(n ast.Node) bool {
			as, ok := n.(*ast.AssignStmt)
			if !ok || len(as.Lhs) != 1 || len(as.Rhs) != 1 {
				return true
			}
			id, ok := as.Lhs[0].(*ast.Ident)
			if !ok {
				return true
			}
			r := exprString(as.Rhs[0])
			if strings.HasPrefix(r, "make(") || r == "slices.Clone(e.tail)" {
				fresh[id.Name] = true
			}
			return true
		})
		ast.Inspect(fd.Body, func(n ast.Node) bool {
			switch x := n.(type) {
			case *ast.AssignStmt:
				for i, l := range x.Lhs {
					if exprString(l) == "e.tail" {
						if i >= len(x.Rhs) {
							onlyFresh = false
							continue
						}
						id, ok := x.Rhs[i].(*ast.Ident)
						if !ok || !fresh[id.Name] {
							onlyFresh = false
							note("%s: e.tail = %s", name, exprString(x.Rhs[i]))
						}
					} else if isTail(l) {
						neverIdx = false
						note("%s: assignment through %s", name, exprString(l))
					} else if se, ok := l.(*ast.SelectorExpr); ok && isTail(se.X) {
						neverIdx = false
						note("%s: assignment through %s", name, exprString(l))
					}
				}
				// a fresh local re-assigned from something else than an append/copy onto itself
				for i, l := range x.Lhs {
					id, ok := l.(*ast.Ident)
					if !ok || !fresh[id.Name] || i >= len(x.Rhs) {
						continue
					}
					r := exprString(x.Rhs[i])
					okR := strings.HasPrefix(r, "make(") || r == "slices.Clone(e.tail)" || strings.HasPrefix(r, "append("+id.Name+",")
					if !okR {
						onlyFresh = false
						note("%s: %s = %s", name, id.Name, r)
					}
				}
			case *ast.IncDecStmt:
				if isTail(x.X) {
					neverIdx = false
				}
			case *ast.CallExpr:
				fn := exprString(x.Fun)
				if dstFuncs[fn] && len(x.Args) > 0 && isTail(x.Args[0]) {
					neverDst = false
					note("%s: %s with e.tail as its destination", name, fn)
				}
			}
			return true
		})
	}
	// reconciler.StatusSet.Set / Pending (types.go): the receiver is a VALUE whose `statuses` slice is
	// shared with the caller's copy: it is cloned before the first write through it
	ft := parse(filepath.Join(repo, "reconciler", "types.go"))
	ssCow := true
	for _, name := range []string{"Set", "Pending"} {
		fd := findFunc(ft, name, "StatusSet")
		if fd == nil {
			fail("reconciler/types.go: StatusSet.%s not found", name)
		}
		clonePos, firstWrite := -1, -1
		ast.Inspect(fd.Body, func(n ast.Node) bool {
			switch x := n.(type) {
			case *ast.AssignStmt:
				for i, l := range x.Lhs {
					ls := exprString(l)
					if ls == "s.statuses" && i < len(x.Rhs) && exprString(x.Rhs[i]) == "slices.Clone(s.statuses)" && clonePos < 0 && x.Pos().IsValid() {
						// only an unconditional clone at the top level of the function counts
						for _, st := range fd.Body.List {
							if st == ast.Stmt(x) {
								clonePos = int(x.Pos())
							}
						}
					} else if strings.HasPrefix(ls, "s.statuses[") || (ls == "s.statuses" && i < len(x.Rhs) && strings.HasPrefix(exprString(x.Rhs[i]), "append(s.statuses")) {
						if firstWrite < 0 {
							firstWrite = int(x.Pos())
						}
					}
				}
			case *ast.CallExpr:
				fn := exprString(x.Fun)
				if dstFuncs[fn] && fn != "append" && len(x.Args) > 0 && exprString(x.Args[0]) == "s.statuses" && firstWrite < 0 {
					firstWrite = int(x.Pos())
				}
			}
			return true
		})
		if firstWrite >= 0 && (clonePos < 0 || clonePos > firstWrite) {
			ssCow = false
			note("StatusSet.%s writes through s.statuses before cloning it", name)
		}
	}
	// lpm.Iterator.All (lpm/iterator.go): "can be called multiple times": the traversal pops and pushes
	// on a LOCAL stack that is a copy of it.stack (the array on the goroutine stack, or slices.Clone),
	// never it.stack itself or a slice sharing its backing array
	fi := parse(filepath.Join(repo, "lpm", "iterator.go"))
	allFn := findFunc(fi, "All", "Iterator")
	if allFn == nil {
		fail("lpm/iterator.go: Iterator.All not found")
	}
	allCopies := true
	sawAssign := false
	ast.Inspect(allFn.Body, func(n ast.Node) bool {
		as, ok := n.(*ast.AssignStmt)
		if !ok {
			return true
		}
		for i, l := range as.Lhs {
			ls := exprString(l)
			if strings.HasPrefix(ls, "it.stack") || ls == "it.start" {
				allCopies = false
				note("Iterator.All assigns %s", ls)
			}
			if ls == "stack" && i < len(as.Rhs) {
				sawAssign = true
				r := exprString(as.Rhs[i])
				ok := strings.HasPrefix(r, "stackArray[") || r == "slices.Clone(it.stack)" || strings.HasPrefix(r, "append(stack,") || strings.HasPrefix(r, "stack[")
				if !ok {
					allCopies = false
					note("Iterator.All: stack = %s", r)
				}
			}
		}
		return true
	})
	allCopies = allCopies && sawAssign
	sf := map[string]any{"lpmIteratorAllWorksOnACopy": allCopies, "statusSetClonesBeforeWriting": ssCow, "tailAssignedOnlyFreshSlices": onlyFresh, "tailNeverDestination": neverDst, "tailNeverIndexAssigned": neverIdx, "notes": notes}
	facts["lpm_entry"] = sf
	var sb strings.Builder
	sb.WriteString("-- GENERATED by tools/extract from the current source (lpm_index.go: lpmEntry.upsert / delete). Do not edit.\n")
	sb.WriteString("import SdbModel.Model.SliceCow\nnamespace Sdb.Gen\n")
	fmt.Fprintf(&sb, "def lpmEntryFacts : SliceCow.EntryFacts := { tailAssignedOnlyFreshSlices := %v, tailNeverDestination := %v, tailNeverIndexAssigned := %v }\n", onlyFresh, neverDst, neverIdx)
	fmt.Fprintf(&sb, "/-- lpm.Iterator.All traverses a copy of the iterator's stack and assigns nothing to the iterator -/\ndef lpmIteratorAllWorksOnACopy : Bool := %v\n", allCopies)
	fmt.Fprintf(&sb, "/-- reconciler.StatusSet.Set / Pending clone `s.statuses` (unconditionally, first) before writing through it -/\ndef statusSetClonesBeforeWriting : Bool := %v\n", ssCow)
	sb.WriteString("end Sdb.Gen\n")
	return "SliceParams.lean", sb.String()
}
