module verif/extract

go 1.25.0
