package main

import (
	"fmt"
	"go/ast"
	"go/token"
	"path/filepath"
	"strings"
)

func init() { extractors = append(extractors, extractLoop) }

// extractLoop TRANSLATES the decision logic of one iteration of reconciler.reconcileLoop
// (reconciler/reconciler.go) into a Lean function `Gen.loopStepV` over the loop's boolean
// variables: what every `select` case assigns and the condition / effects of the `if`
// that calls `r.prune`.  Statements that do not assign one of the tracked variables are
// skipped; a tracked variable assigned anywhere the translator does not understand
// (inside other control flow, by a non-boolean expression) makes the extraction fail.
// Around it, structural facts about the snapshot used for pruning and about refreshLoop.

// loopAlias maps the source's name of the per-iteration local flag (declared `x := false` at the top
// level of the loop body) to the model's name `prune`, so that renaming it is not a broken tie
var loopAlias = map[string]string{}

func canon(name string) string {
	if a, ok := loopAlias[name]; ok {
		return a
	}
	return name
}

var loopTracked = map[string]string{
	"tableInitialized": "tableInitialized",
	"externalPrune":    "externalPrune",
	"prune":            "prune",
	"tableInitWatch":   "initWatchArmed", // only `= nil`
}

type loopTr struct {
	sb     strings.Builder
	indent string
}

func (t *loopTr) line(format string, args ...any) {
	t.sb.WriteString(t.indent)
	fmt.Fprintf(&t.sb, format, args...)
	t.sb.WriteString("\n")
}

// boolExpr translates a Go boolean expression over the tracked variables.
func boolExpr(e ast.Expr) string {
	switch x := e.(type) {
	case *ast.Ident:
		switch canon(x.Name) {
		case "true", "false":
			return x.Name
		case "tableInitialized", "externalPrune", "prune":
			return "v." + canon(x.Name)
		}
	case *ast.ParenExpr:
		return "(" + boolExpr(x.X) + ")"
	case *ast.UnaryExpr:
		if x.Op == token.NOT {
			return "(!" + boolExpr(x.X) + ")"
		}
	case *ast.BinaryExpr:
		s := exprString(x)
		if s == "r.config.PruneInterval!=0" || s == "r.config.PruneInterval>0" || s == "0!=r.config.PruneInterval" || s == "0<r.config.PruneInterval" {
			return "pe"
		}
		if s == "r.config.PruneInterval==0" || s == "0==r.config.PruneInterval" || s == "r.config.PruneInterval<=0" {
			return "(!pe)"
		}
		if s == "tableInitWatch==nil" {
			return "(!v.initWatchArmed)"
		}
		if s == "tableInitWatch!=nil" {
			return "v.initWatchArmed"
		}
		switch x.Op {
		case token.LAND:
			return "(" + boolExpr(x.X) + " && " + boolExpr(x.Y) + ")"
		case token.LOR:
			return "(" + boolExpr(x.X) + " || " + boolExpr(x.Y) + ")"
		case token.EQL:
			return "(" + boolExpr(x.X) + " == " + boolExpr(x.Y) + ")"
		case token.NEQ:
			return "(" + boolExpr(x.X) + " != " + boolExpr(x.Y) + ")"
		}
	}
	fail("reconciler/reconciler.go: reconcileLoop: cannot translate the boolean expression %q", exprString(e))
	return ""
}

// assignsTracked reports whether a statement (sub)tree assigns a tracked variable.
func assignsTracked(n ast.Node) bool {
	found := false
	ast.Inspect(n, func(m ast.Node) bool {
		switch s := m.(type) {
		case *ast.AssignStmt:
			for _, l := range s.Lhs {
				if id, ok := l.(*ast.Ident); ok {
					if _, ok := loopTracked[canon(id.Name)]; ok {
						found = true
					}
				}
			}
		case *ast.DeclStmt:
			if gd, ok := s.Decl.(*ast.GenDecl); ok {
				for _, sp := range gd.Specs {
					if vs, ok := sp.(*ast.ValueSpec); ok {
						for _, nm := range vs.Names {
							if _, ok := loopTracked[nm.Name]; ok {
								found = true
							}
						}
					}
				}
			}
		}
		return true
	})
	return found
}

// trackedAssign translates `x = e` / `x := e` for a tracked x; ok=false if the statement is something else.
func (t *loopTr) trackedAssign(st ast.Stmt) bool {
	as, ok := st.(*ast.AssignStmt)
	if !ok || len(as.Lhs) != 1 || len(as.Rhs) != 1 {
		return false
	}
	id, ok := as.Lhs[0].(*ast.Ident)
	if !ok {
		return false
	}
	field, ok := loopTracked[canon(id.Name)]
	if !ok {
		return false
	}
	if canon(id.Name) == "tableInitWatch" {
		if exprString(as.Rhs[0]) != "nil" {
			fail("reconciler/reconciler.go: reconcileLoop: tableInitWatch is assigned %q inside the loop (only nil is understood)", exprString(as.Rhs[0]))
		}
		t.line("let v := { v with initWatchArmed := false }")
		return true
	}
	t.line("let v := { v with %s := %s }", field, boolExpr(as.Rhs[0]))
	return true
}

// block translates a list of statements that may only contain tracked assignments and
// statements that do not touch tracked variables.
func (t *loopTr) block(stmts []ast.Stmt, where string) {
	for _, st := range stmts {
		if t.trackedAssign(st) {
			continue
		}
		if assignsTracked(st) {
			fail("reconciler/reconciler.go: reconcileLoop: %s: a loop variable is assigned inside %T, which the translator does not understand", where, st)
		}
	}
}

func containsCall(n ast.Node, sel string) *ast.CallExpr {
	var out *ast.CallExpr
	ast.Inspect(n, func(m ast.Node) bool {
		if ce, ok := m.(*ast.CallExpr); ok && out == nil {
			if se, ok := ce.Fun.(*ast.SelectorExpr); ok && se.Sel.Name == sel {
				out = ce
			}
		}
		return true
	})
	return out
}

func extractLoop(repo string, facts Facts) (string, string) {
	const file = "reconciler/reconciler.go"
	f := parse(filepath.Join(repo, "reconciler", "reconciler.go"))
	rl := findFunc(f, "reconcileLoop", "reconciler")
	if rl == nil {
		fail("%s: reconcileLoop not found", file)
	}
	var loop *ast.ForStmt
	var pre []ast.Stmt
	for _, st := range rl.Body.List {
		if fs, ok := st.(*ast.ForStmt); ok && fs.Cond == nil && fs.Init == nil {
			loop = fs
			break
		}
		pre = append(pre, st)
	}
	if loop == nil {
		fail("%s: reconcileLoop: the endless for loop was not found", file)
	}

	// --- before the loop: initial values, the ticker, the initializer watch
	init := map[string]string{}
	tickerGuarded, tickerDeclNil, initFromInitialized, txnFromCommit := false, false, false, false
	for _, st := range pre {
		switch s := st.(type) {
		case *ast.AssignStmt:
			if len(s.Lhs) == 1 && len(s.Rhs) == 1 {
				if id, ok := s.Lhs[0].(*ast.Ident); ok {
					if _, tr := loopTracked[id.Name]; tr {
						init[id.Name] = exprString(s.Rhs[0])
					}
					if id.Name == "txn" && exprString(s.Rhs[0]) == "wtxn.Commit()" {
						txnFromCommit = true
					}
					if id.Name == "pruneTickerChan" {
						fail("%s: reconcileLoop: pruneTickerChan assigned outside the PruneInterval guard", file)
					}
				}
			}
			if len(s.Lhs) == 2 && len(s.Rhs) == 1 {
				if id, ok := s.Lhs[1].(*ast.Ident); ok && id.Name == "tableInitWatch" {
					initFromInitialized = txnFromCommit && exprString(s.Rhs[0]) == "r.config.Table.Initialized(txn)"
					init["tableInitWatch"] = exprString(s.Rhs[0])
				}
			}
		case *ast.DeclStmt:
			if gd, ok := s.Decl.(*ast.GenDecl); ok {
				for _, sp := range gd.Specs {
					if vs, ok := sp.(*ast.ValueSpec); ok && len(vs.Names) == 1 && vs.Names[0].Name == "pruneTickerChan" && len(vs.Values) == 0 {
						tickerDeclNil = true
					}
				}
			}
		case *ast.IfStmt:
			c := exprString(s.Cond)
			assigns := false
			ast.Inspect(s.Body, func(m ast.Node) bool {
				if as, ok := m.(*ast.AssignStmt); ok && len(as.Lhs) == 1 {
					if id, ok := as.Lhs[0].(*ast.Ident); ok && id.Name == "pruneTickerChan" {
						assigns = true
					}
				}
				return true
			})
			if assigns {
				tickerGuarded = c == "r.config.PruneInterval>0" || c == "r.config.PruneInterval!=0"
			}
			if assignsTracked(s) {
				fail("%s: reconcileLoop: a loop variable is assigned conditionally before the loop", file)
			}
		}
	}
	for _, v := range []string{"tableInitialized", "externalPrune"} {
		if init[v] != "true" && init[v] != "false" {
			fail("%s: reconcileLoop: initial value of %s not found (got %q)", file, v, init[v])
		}
	}
	if _, ok := init["tableInitWatch"]; !ok {
		fail("%s: reconcileLoop: tableInitWatch is not initialised before the loop", file)
	}

	// the per-iteration local flag, whatever it is called
	loopAlias = map[string]string{}
	var locals []string
	for _, st := range loop.Body.List {
		if as, ok := st.(*ast.AssignStmt); ok && as.Tok == token.DEFINE && len(as.Lhs) == 1 && len(as.Rhs) == 1 {
			if id, ok := as.Lhs[0].(*ast.Ident); ok {
				if r := exprString(as.Rhs[0]); r == "false" || r == "true" {
					locals = append(locals, id.Name)
				}
			}
		}
	}
	if len(locals) == 1 && locals[0] != "prune" {
		if _, clash := loopTracked[locals[0]]; !clash {
			loopAlias[locals[0]] = "prune"
		}
	}

	// --- the loop body
	tr := &loopTr{indent: "  "}
	selSeen, pruneIfSeen := false, false
	idxSelect, idxSnap, idxRun, idxPrune := -1, -1, -1, -1
	pruneArgIsTxn, runArgIsTxn := false, false
	cases := map[string]bool{}
	for i, st := range loop.Body.List {
		switch s := st.(type) {
		case *ast.SelectStmt:
			if selSeen {
				fail("%s: reconcileLoop: more than one select in the loop", file)
			}
			selSeen, idxSelect = true, i
			tr.line("let v := match t with")
			for _, c := range s.Body.List {
				cc := c.(*ast.CommClause)
				if cc.Comm == nil {
					fail("%s: reconcileLoop: the trigger select has a default case", file)
				}
				es, ok := cc.Comm.(*ast.ExprStmt)
				if !ok {
					fail("%s: reconcileLoop: a select case is not a plain receive", file)
				}
				ue, ok := es.X.(*ast.UnaryExpr)
				if !ok || ue.Op != token.ARROW {
					fail("%s: reconcileLoop: a select case is not a plain receive", file)
				}
				ch := exprString(ue.X)
				var ctor string
				switch ch {
				case "ctx.Done()":
					// ends the loop: must return
					if len(cc.Body) != 1 {
						fail("%s: reconcileLoop: the ctx.Done() case does not just return", file)
					}
					if _, ok := cc.Body[0].(*ast.ReturnStmt); !ok {
						fail("%s: reconcileLoop: the ctx.Done() case does not just return", file)
					}
					continue
				case "r.retries.Wait()":
					ctor = "retry"
				case "tableWatchChan":
					ctor = "table"
				case "tableInitWatch":
					ctor = "initClosed"
				case "pruneTickerChan":
					ctor = "pruneTick"
				case "r.externalPruneTrigger":
					ctor = "extPrune"
				default:
					fail("%s: reconcileLoop: unknown trigger channel %q in the select", file, ch)
				}
				if cases[ctor] {
					fail("%s: reconcileLoop: two select cases for %s", file, ctor)
				}
				cases[ctor] = true
				tr.line("  | .%s =>", ctor)
				tr.indent = "      "
				tr.block(cc.Body, "select case "+ch)
				tr.line("v")
				tr.indent = "  "
			}
			for _, c := range []string{"retry", "table", "initClosed", "pruneTick", "extPrune"} {
				if !cases[c] {
					fail("%s: reconcileLoop: the select has no case for trigger %s", file, c)
				}
			}
		case *ast.IfStmt:
			if ce := containsCall(s, "prune"); ce != nil {
				if pruneIfSeen {
					fail("%s: reconcileLoop: r.prune is called at two places", file)
				}
				if !selSeen {
					fail("%s: reconcileLoop: r.prune is called before the trigger select", file)
				}
				if s.Else != nil || s.Init != nil {
					fail("%s: reconcileLoop: the if around r.prune has an else / init part", file)
				}
				pruneIfSeen, idxPrune = true, i
				pruneArgIsTxn = len(ce.Args) == 2 && exprString(ce.Args[1]) == "txn"
				tr.line("let v := if %s then", boolExpr(s.Cond))
				tr.indent = "      "
				// the call itself must be at the top level of the body (not under a further condition)
				top := false
				for _, b := range s.Body.List {
					if containsCall(b, "prune") != nil {
						if is, ok := b.(*ast.IfStmt); ok && is.Init != nil && containsCall(is.Init, "prune") != nil {
							top = true
						}
						if _, ok := b.(*ast.ExprStmt); ok {
							top = true
						}
						if _, ok := b.(*ast.AssignStmt); ok {
							top = true
						}
						if top {
							tr.line("let v := { v with called := true }")
						}
						if is, ok := b.(*ast.IfStmt); ok && assignsTracked(is.Body) {
							fail("%s: reconcileLoop: a loop variable is assigned depending on the result of r.prune", file)
						}
						continue
					}
					if tr.trackedAssign(b) {
						continue
					}
					if assignsTracked(b) {
						fail("%s: reconcileLoop: a loop variable is assigned inside %T next to r.prune", file, b)
					}
				}
				if !top {
					fail("%s: reconcileLoop: r.prune is called under a further condition", file)
				}
				tr.line("v")
				tr.indent = "  "
				tr.line("  else v")
				continue
			}
			if assignsTracked(s) {
				fail("%s: reconcileLoop: a loop variable is assigned inside an if statement the translator does not understand (%s)", file, exprString(s.Cond))
			}
		case *ast.AssignStmt:
			if tr.trackedAssign(s) {
				continue
			}
			if len(s.Lhs) == 1 && exprString(s.Lhs[0]) == "txn" && exprString(s.Rhs[0]) == "r.DB.ReadTxn()" {
				idxSnap = i
			}
			if ce := containsCall(s, "run"); ce != nil && strings.HasPrefix(exprString(ce.Fun), "incremental.") {
				idxRun = i
				runArgIsTxn = len(ce.Args) >= 2 && exprString(ce.Args[1]) == "txn"
			}
			if assignsTracked(s) {
				fail("%s: reconcileLoop: a loop variable is assigned by a statement the translator does not understand", file)
			}
		default:
			if assignsTracked(st) {
				fail("%s: reconcileLoop: a loop variable is assigned inside %T, which the translator does not understand", file, st)
			}
		}
	}
	if !selSeen || !pruneIfSeen {
		fail("%s: reconcileLoop: trigger select or the call of r.prune not found in the loop", file)
	}

	// --- prune(): hands Operations.Prune the complete contents of the same snapshot
	pf := findFunc(f, "prune", "reconciler")
	if pf == nil {
		fail("%s: func prune not found", file)
	}
	pruneGetsAll := false
	{
		var txnParam string
		if pf.Type.Params != nil && len(pf.Type.Params.List) == 2 && len(pf.Type.Params.List[1].Names) == 1 {
			txnParam = pf.Type.Params.List[1].Names[0].Name
		}
		allVar := ""
		ast.Inspect(pf.Body, func(m ast.Node) bool {
			if as, ok := m.(*ast.AssignStmt); ok && len(as.Lhs) == 1 && len(as.Rhs) == 1 {
				if exprString(as.Rhs[0]) == "r.config.Table.All("+txnParam+")" {
					allVar = exprString(as.Lhs[0])
				}
			}
			return true
		})
		if ce := containsCall(pf.Body, "Prune"); ce != nil && txnParam != "" && len(ce.Args) == 3 {
			a2 := exprString(ce.Args[2])
			pruneGetsAll = exprString(ce.Args[1]) == txnParam && ((allVar != "" && a2 == allVar) || a2 == "r.config.Table.All("+txnParam+")")
		}
	}

	// --- refreshLoop
	rf := findFunc(f, "refreshLoop", "reconciler")
	if rf == nil {
		fail("%s: refreshLoop not found", file)
	}
	var rng *ast.RangeStmt
	seqFromCursor := false
	ast.Inspect(rf.Body, func(m ast.Node) bool {
		switch s := m.(type) {
		case *ast.RangeStmt:
			if rng == nil {
				rng = s
			}
		case *ast.AssignStmt:
			if len(s.Rhs) == 1 {
				r := exprString(s.Rhs[0])
				if strings.HasPrefix(r, "r.config.Table.LowerBound(r.DB.ReadTxn(),statedb.ByRevision[") && strings.HasSuffix(r, "(lastRevision+1))") {
					seqFromCursor = true
				}
			}
		}
		return true
	})
	if rng == nil {
		fail("%s: refreshLoop: the loop over the objects was not found", file)
	}
	stopsAtYoung, cursorMoves, onlyDone, rechecks, writesStatus, alwaysCommits := false, false, false, false, false, false
	ageFromStatus := false
	idxYoung, idxCursor, idxDone := -1, -1, -1
	for i, st := range rng.Body.List {
		switch s := st.(type) {
		case *ast.AssignStmt:
			if len(s.Lhs) == 1 && len(s.Rhs) == 1 {
				l, r := exprString(s.Lhs[0]), exprString(s.Rhs[0])
				if l == "updatedSince" && r == "time.Since(status.UpdatedAt)" {
					ageFromStatus = true
				}
				if l == "lastRevision" && r == "rev" {
					idxCursor = i
				}
			}
		case *ast.IfStmt:
			c := exprString(s.Cond)
			if c == "updatedSince<r.config.RefreshInterval" && len(s.Body.List) > 0 {
				if bs, ok := s.Body.List[len(s.Body.List)-1].(*ast.BranchStmt); ok && bs.Tok == token.BREAK {
					idxYoung = i
				}
			}
			if c == "status.Kind==StatusKindDone" {
				idxDone = i
				// inside: WriteTxn, Get, recheck-if, Commit
				idxIf, idxCommit := -1, -1
				getOk := false
				for j, b := range s.Body.List {
					switch bb := b.(type) {
					case *ast.AssignStmt:
						if len(bb.Rhs) == 1 && exprString(bb.Rhs[0]) == "r.config.Table.Get(wtxn,indexer.QueryFromObject(obj))" && len(bb.Lhs) == 3 &&
							exprString(bb.Lhs[0]) == "obj" && exprString(bb.Lhs[1]) == "newRev" && exprString(bb.Lhs[2]) == "ok" {
							getOk = true
						}
					case *ast.IfStmt:
						if exprString(bb.Cond) == "ok&&rev==newRev" && bb.Else == nil {
							idxIf = j
							set, ins := false, false
							for _, w := range bb.Body.List {
								if as, ok := w.(*ast.AssignStmt); ok && len(as.Rhs) == 1 && exprString(as.Lhs[0]) == "obj" &&
									exprString(as.Rhs[0]) == "r.config.SetObjectStatus(r.config.CloneObject(obj),StatusRefreshing())" {
									set = true
								}
								if es, ok := w.(*ast.ExprStmt); ok && exprString(es.X) == "r.config.Table.Insert(wtxn,obj)" {
									ins = set
								}
							}
							writesStatus = set && ins && len(bb.Body.List) == 2
						}
					case *ast.ExprStmt:
						if exprString(bb.X) == "wtxn.Commit()" {
							idxCommit = j
						}
					}
				}
				rechecks = getOk && idxIf >= 0
				alwaysCommits = idxCommit > idxIf && idxIf >= 0
			}
		}
	}
	stopsAtYoung = ageFromStatus && idxYoung >= 0
	cursorMoves = idxCursor > idxYoung && idxYoung >= 0 && (idxDone < 0 || idxCursor < idxDone)
	onlyDone = idxDone >= 0
	// no other write transaction in refreshLoop
	nW := 0
	ast.Inspect(rf.Body, func(m ast.Node) bool {
		if ce, ok := m.(*ast.CallExpr); ok {
			if se, ok := ce.Fun.(*ast.SelectorExpr); ok && se.Sel.Name == "WriteTxn" {
				nW++
			}
		}
		return true
	})
	onlyDone = onlyDone && nW == 1

	lf := map[string]any{
		"snapshotAfterTrigger":         idxSelect >= 0 && idxSnap > idxSelect && idxRun > idxSnap && idxPrune > idxRun,
		"pruneOnRoundSnapshot":         pruneArgIsTxn && runArgIsTxn && idxPrune > idxRun && idxRun > idxSnap,
		"pruneGetsAll":                 pruneGetsAll,
		"tickerOnlyIfEnabled":          tickerGuarded && tickerDeclNil,
		"initWatchFromInitialized":     initFromInitialized,
		"refreshFromCursor":            seqFromCursor,
		"refreshStopsAtYoung":          stopsAtYoung,
		"refreshCursorMoves":           cursorMoves,
		"refreshOnlyDone":              onlyDone,
		"refreshRechecksRevision":      rechecks,
		"refreshWritesStatusOfCurrent": writesStatus,
		"refreshAlwaysCommits":         alwaysCommits,
		"loop_initial":                 init,
		"loop_step_lean":               strings.Split(tr.sb.String(), "\n"),
	}
	facts["loop"] = lf

	b := func(k string) string { return fmt.Sprintf("%v", lf[k].(bool)) }
	var sb strings.Builder
	sb.WriteString("-- GENERATED by tools/extract from the current source (reconciler/reconciler.go). Do not edit.\n")
	sb.WriteString("import SdbModel.Model.RecLoop\nnamespace Sdb.Gen\nopen Sdb.RecLoop\n")
	sb.WriteString("/-- the loop variables before the first iteration -/\n")
	fmt.Fprintf(&sb, "def loopInit : LoopState := { tableInitialized := %s, externalPrune := %s, initWatchArmed := true }\n", init["tableInitialized"], init["externalPrune"])
	sb.WriteString("/-- one iteration of `reconcileLoop` on its boolean variables, translated statement by statement:\n")
	sb.WriteString("    `pe` is `r.config.PruneInterval != 0`, `v.called` records the call of `r.prune` -/\n")
	sb.WriteString("def loopStepV (pe : Bool) (v : LoopVars) (t : Trigger) : LoopVars :=\n")
	sb.WriteString(tr.sb.String())
	sb.WriteString("  v\n")
	sb.WriteString("def loopStep : StepFn := fun pe s t => (loopStepV pe (LoopVars.ofState s) t).result\n")
	sb.WriteString("def loopFacts : LoopFacts := {\n")
	keys := []string{"snapshotAfterTrigger", "pruneOnRoundSnapshot", "pruneGetsAll", "tickerOnlyIfEnabled", "initWatchFromInitialized",
		"refreshFromCursor", "refreshStopsAtYoung", "refreshCursorMoves", "refreshOnlyDone", "refreshRechecksRevision", "refreshWritesStatusOfCurrent", "refreshAlwaysCommits"}
	for i, k := range keys {
		sep := ","
		if i == len(keys)-1 {
			sep = " }"
		}
		fmt.Fprintf(&sb, "  %s := %s%s\n", k, b(k), sep)
	}
	sb.WriteString("end Sdb.Gen\n")
	return "LoopParams.lean", sb.String()
}
