package main

import (
	"fmt"
	"go/ast"
	"go/token"
	"path/filepath"
	"sort"
	"strconv"
	"strings"
)

func init() { extractors = append(extractors, extractArt) }

// hasStmt reports whether the function body contains (at top level of the
// body) an inc/dec statement on the given selector, e.g. txn.txnID++.
func hasIncAtTop(fd *ast.FuncDecl, sel string) bool {
	for _, st := range fd.Body.List {
		if ids, ok := st.(*ast.IncDecStmt); ok && ids.Tok == token.INC && exprString(ids.X) == sel {
			return true
		}
	}
	return false
}

// extractArt: node capacities, demotion thresholds, the stamp discipline facts
// (which Txn methods bump txnID; the clone-or-mutate condition of cloneNode).
func extractArt(repo string, facts Facts) (string, string) {
	fn := parse(filepath.Join(repo, "part", "node.go"))
	ft := parse(filepath.Join(repo, "part", "txn.go"))

	// caps from header.cap()
	capFn := findFunc(fn, "cap", "header")
	if capFn == nil {
		fail("part/node.go: header.cap() not found")
	}
	var caps []int
	ast.Inspect(capFn.Body, func(n ast.Node) bool {
		cc, ok := n.(*ast.CaseClause)
		if !ok || len(cc.List) != 1 || len(cc.Body) != 1 {
			return true
		}
		ret, ok := cc.Body[0].(*ast.ReturnStmt)
		if !ok {
			return true
		}
		if v, ok := evalInt(ret.Results[0], nil); ok && v > 0 {
			caps = append(caps, v)
		}
		return true
	})
	sort.Ints(caps)
	if len(caps) != 4 {
		fail("part/node.go: expected 4 inner node capacities, got %v", caps)
	}
	kindName := map[string]int{"nodeKind4": caps[0], "nodeKind16": caps[1], "nodeKind48": caps[2], "nodeKind256": caps[3]}

	// promote condition in modify: this.size()+1 > this.cap()
	mod := findFunc(ft, "modify", "Txn")
	if mod == nil {
		fail("part/txn.go: Txn.modify not found")
	}
	promoteCond := ""
	ast.Inspect(mod.Body, func(n ast.Node) bool {
		ifs, ok := n.(*ast.IfStmt)
		if ok && strings.Contains(exprString(ifs.Cond), "cap()") {
			promoteCond = exprString(ifs.Cond)
		}
		return true
	})
	if promoteCond != "this.size()+1>this.cap()" {
		fail("part/txn.go: modify: promote condition changed: %q (Model.Art.insNode must be revisited)", promoteCond)
	}

	// demotion thresholds in removeChild
	rc := findFunc(ft, "removeChild", "Txn")
	if rc == nil {
		fail("part/txn.go: Txn.removeChild not found")
	}
	type dem struct{ kind, thr int }
	var dems []dem
	mergeCase := ""
	ast.Inspect(rc.Body, func(n ast.Node) bool {
		cc, ok := n.(*ast.CaseClause)
		if !ok || len(cc.List) != 1 {
			return true
		}
		be, ok := cc.List[0].(*ast.BinaryExpr)
		if !ok || be.Op != token.LAND {
			return true
		}
		l, r := exprString(be.X), exprString(be.Y)
		if strings.HasPrefix(l, "parent.kind()==") && strings.HasPrefix(r, "size<=") {
			k, ok1 := kindName[strings.TrimPrefix(l, "parent.kind()==")]
			thr, err := strconv.Atoi(strings.TrimPrefix(r, "size<="))
			if !ok1 || err != nil {
				fail("removeChild: cannot read demotion case %s && %s", l, r)
			}
			dems = append(dems, dem{k, thr})
		} else {
			mergeCase = l + "&&" + r
		}
		return true
	})
	if mergeCase != "size==2&&parent.getLeaf()==nil" {
		fail("removeChild: merge case changed: %q", mergeCase)
	}
	if len(dems) != 3 {
		fail("removeChild: expected 3 demotion cases, got %v", dems)
	}
	var demS []string
	for _, d := range dems {
		demS = append(demS, fmt.Sprintf("(%d, %d)", d.kind, d.thr))
	}

	// stamp discipline: every method that hands out a view of the current root bumps txnID
	bumpers := map[string]bool{}
	for _, name := range []string{"All", "Clone", "Prefix", "LowerBound", "Iterator", "Commit"} {
		fd := findFunc(ft, name, "Txn")
		if fd == nil {
			fail("part/txn.go: Txn.%s not found", name)
		}
		bumpers[name] = hasIncAtTop(fd, "txn.txnID")
	}
	cn := findFunc(ft, "cloneNode", "Txn")
	if cn == nil {
		fail("part/txn.go: Txn.cloneNode not found")
	}
	cloneCond := ""
	if len(cn.Body.List) > 0 {
		if ifs, ok := cn.Body.List[0].(*ast.IfStmt); ok {
			cloneCond = exprString(ifs.Cond)
			// the in-place branch must return n itself
			okRet := false
			if len(ifs.Body.List) == 1 {
				if ret, ok := ifs.Body.List[0].(*ast.ReturnStmt); ok && len(ret.Results) == 1 && exprString(ret.Results[0]) == "n" {
					okRet = true
				}
			}
			if !okRet {
				cloneCond = "changed-body"
			}
		}
	}
	// Tree.Txn takes its id from nextTxnID; Commit/Clone publish txnID as nextTxnID
	ftree := parse(filepath.Join(repo, "part", "tree.go"))
	txnFn := findFunc(ftree, "Txn", "Tree")
	idFromTree := false
	if txnFn != nil {
		ast.Inspect(txnFn.Body, func(n ast.Node) bool {
			if as, ok := n.(*ast.AssignStmt); ok && len(as.Lhs) == 1 && exprString(as.Lhs[0]) == "txn.txnID" && exprString(as.Rhs[0]) == "t.nextTxnID" {
				idFromTree = true
			}
			return true
		})
	}

	// lpm: same discipline (lpm/trie.go)
	fl := parse(filepath.Join(repo, "lpm", "trie.go"))
	lpmBump := map[string]bool{}
	for _, name := range []string{"All", "Prefix", "LowerBound", "Commit"} {
		fd := findFunc(fl, name, "Txn")
		if fd == nil {
			fail("lpm/trie.go: Txn.%s not found", name)
		}
		found := false
		ast.Inspect(fd.Body, func(n ast.Node) bool {
			if ids, ok := n.(*ast.IncDecStmt); ok && ids.Tok == token.INC && exprString(ids.X) == "txn.txnID" {
				found = true
			}
			return true
		})
		lpmBump[name] = found
	}
	lpmClone := findFunc(fl, "clone", "Txn")
	lpmCloneCond := ""
	if lpmClone != nil {
		for _, st := range lpmClone.Body.List {
			if ifs, ok := st.(*ast.IfStmt); ok && strings.Contains(exprString(ifs.Cond), "txnID") {
				lpmCloneCond = exprString(ifs.Cond)
			}
		}
	}
	lpmTxnNext := false
	if fd := findFunc(fl, "Txn", "Trie"); fd != nil {
		ast.Inspect(fd.Body, func(n ast.Node) bool {
			if as, ok := n.(*ast.AssignStmt); ok && len(as.Lhs) == 1 && exprString(as.Lhs[0]) == "txnID" && exprString(as.Rhs[0]) == "l.prevTxnID+1" {
				lpmTxnNext = true
			}
			return true
		})
	}
	lpmReuseNext := false
	if fd := findFunc(fl, "Reuse", "Txn"); fd != nil {
		ast.Inspect(fd.Body, func(n ast.Node) bool {
			if as, ok := n.(*ast.AssignStmt); ok && len(as.Lhs) == 1 && exprString(as.Lhs[0]) == "txn.txnID" && exprString(as.Rhs[0]) == "trie.prevTxnID+1" {
				lpmReuseNext = true
			}
			return true
		})
	}

	facts["art"] = map[string]any{
		"caps": caps, "demote": demS, "promote_cond": promoteCond, "merge_case": mergeCase,
		"txnID_bumped_in": bumpers, "cloneNode_inplace_cond": cloneCond, "txn_id_from_tree": idFromTree,
		"lpm_txnID_bumped_in": lpmBump, "lpm_clone_cond": lpmCloneCond, "lpm_txn_next": lpmTxnNext, "lpm_reuse_next": lpmReuseNext,
	}
	b2s := func(b bool) string {
		if b {
			return "true"
		}
		return "false"
	}
	var b strings.Builder
	b.WriteString("-- GENERATED by tools/extract from the current source (part/node.go, part/txn.go, part/tree.go, lpm/trie.go). Do not edit.\n")
	b.WriteString("import SdbModel.Model.Art\nimport SdbModel.Model.Cow\nnamespace Sdb.Gen\n")
	fmt.Fprintf(&b, "def artParams : Art.ArtParams := { caps := %s, demoteAt := [%s] }\n", leanList(caps), strings.Join(demS, ", "))
	b.WriteString("/-- the copy-on-write stamp discipline as found in the source -/\n")
	fmt.Fprintf(&b, "def partStamp : Cow.StampFacts := {\n  bumpAll := %s, bumpClone := %s, bumpPrefix := %s, bumpLowerBound := %s, bumpIterator := %s, bumpCommit := %s,\n  inPlaceOnlyIfOwned := %s, idFromPublished := %s }\n",
		b2s(bumpers["All"]), b2s(bumpers["Clone"]), b2s(bumpers["Prefix"]), b2s(bumpers["LowerBound"]), b2s(bumpers["Iterator"]), b2s(bumpers["Commit"]),
		b2s(cloneCond == "n.txnID()==txn.txnID"), b2s(idFromTree))
	fmt.Fprintf(&b, "def lpmStamp : Cow.StampFacts := {\n  bumpAll := %s, bumpClone := true, bumpPrefix := %s, bumpLowerBound := %s, bumpIterator := true, bumpCommit := %s,\n  inPlaceOnlyIfOwned := %s, idFromPublished := %s }\n",
		b2s(lpmBump["All"]), b2s(lpmBump["Prefix"]), b2s(lpmBump["LowerBound"]), b2s(lpmBump["Commit"]),
		b2s(lpmCloneCond == "n.txnID==txn.txnID"), b2s(lpmTxnNext && lpmReuseNext))
	b.WriteString("end Sdb.Gen\n")
	return "ArtParams.lean", b.String()
}
