package main

import (
	"fmt"
	"go/ast"
	"go/token"
	"path/filepath"
	"strings"
)

func init() { extractors = append(extractors, extractTable) }

// countAssign counts assignments `lhs = rhs` (exact expression strings) anywhere in the body.
func countAssign(fd *ast.FuncDecl, lhs, rhs string) int {
	n := 0
	ast.Inspect(fd.Body, func(x ast.Node) bool {
		if as, ok := x.(*ast.AssignStmt); ok && len(as.Lhs) == 1 && len(as.Rhs) == 1 &&
			exprString(as.Lhs[0]) == lhs && exprString(as.Rhs[0]) == rhs {
			n++
		}
		return true
	})
	return n
}

// posOf returns the source offset of the first node satisfying pred (or -1).
func posOf(fd *ast.FuncDecl, pred func(ast.Node) bool) token.Pos {
	var p token.Pos = -1
	ast.Inspect(fd.Body, func(x ast.Node) bool {
		if x != nil && p < 0 && pred(x) {
			p = x.Pos()
		}
		return true
	})
	return p
}

func incPos(fd *ast.FuncDecl, sel string) token.Pos {
	return posOf(fd, func(x ast.Node) bool {
		ids, ok := x.(*ast.IncDecStmt)
		return ok && ids.Tok == token.INC && exprString(ids.X) == sel
	})
}

func callPos(fd *ast.FuncDecl, contains string) token.Pos {
	return posOf(fd, func(x ast.Node) bool {
		ce, ok := x.(*ast.CallExpr)
		return ok && strings.Contains(exprString(ce), contains)
	})
}

func returnsOnly(fd *ast.FuncDecl, want string) bool {
	if fd == nil || len(fd.Body.List) != 1 {
		return false
	}
	rs, ok := fd.Body.List[0].(*ast.ReturnStmt)
	return ok && len(rs.Results) == 1 && exprString(rs.Results[0]) == want
}

// graveyardCleanupGuards: the conditions of the if statements that enclose the removal of a
// re-inserted key from the graveyard in modify, outermost first ("!oldExists;existed": for every
// new key, whatever else holds, if the graveyard has it)
func graveyardCleanupGuards(mod *ast.FuncDecl) string {
	var path []string
	var found string
	var walk func(n ast.Node, conds []string)
	walk = func(n ast.Node, conds []string) {
		if n == nil || found != "" {
			return
		}
		switch x := n.(type) {
		case *ast.IfStmt:
			c := append(append([]string{}, conds...), exprString(x.Cond))
			walk(x.Body, c)
			if x.Else != nil {
				walk(x.Else, append(append([]string{}, conds...), "else:"+exprString(x.Cond)))
			}
			return
		case *ast.BlockStmt:
			for _, st := range x.List {
				walk(st, conds)
			}
			return
		case *ast.ExprStmt:
			if strings.Contains(exprString(x.X), "GraveyardIndexPos).delete(idKey)") {
				found = strings.Join(conds, ";")
			}
			return
		case *ast.SwitchStmt:
			walk(x.Body, append(append([]string{}, conds...), "switch"))
			return
		case *ast.CaseClause:
			for _, st := range x.Body {
				walk(st, append(append([]string{}, conds...), "case"))
			}
			return
		case *ast.ForStmt:
			walk(x.Body, append(append([]string{}, conds...), "for"))
			return
		}
	}
	_ = path
	walk(mod.Body, nil)
	return found
}

// trackerLoopIsPlainMin: the loop over the delete trackers in graveyardWorker does nothing but
// `rev := dt.getRevision(); if rev < lowWatermark { lowWatermark = rev }` — no tracker is skipped
func trackerLoopIsPlainMin(gc *ast.FuncDecl) bool {
	ok := false
	ast.Inspect(gc.Body, func(n ast.Node) bool {
		fs, isFor := n.(*ast.ForStmt)
		if !isFor || fs.Init == nil || !strings.Contains(exprString2(fs.Init), "dtIter.Next()") {
			return true
		}
		if len(fs.Body.List) != 2 {
			return false
		}
		as, ok1 := fs.Body.List[0].(*ast.AssignStmt)
		is, ok2 := fs.Body.List[1].(*ast.IfStmt)
		if ok1 && ok2 && len(as.Rhs) == 1 && exprString(as.Rhs[0]) == "dt.getRevision()" && exprString(is.Cond) == "rev<lowWatermark" && is.Else == nil && len(is.Body.List) == 1 {
			if a2, ok3 := is.Body.List[0].(*ast.AssignStmt); ok3 && exprString(a2.Lhs[0]) == "lowWatermark" && exprString(a2.Rhs[0]) == "rev" {
				ok = true
			}
		}
		return false
	})
	return ok
}

func exprString2(st ast.Stmt) string {
	if as, ok := st.(*ast.AssignStmt); ok {
		var r []string
		for _, e := range as.Rhs {
			r = append(r, exprString(e))
		}
		return strings.Join(r, ",")
	}
	return ""
}

// workListOnlyFromTheScan: `toBeDeleted[...]` is assigned only by appending a key found by the scan
// of the graveyard revision index (a table with nothing to collect gets no entry and is not locked)
func workListOnlyFromTheScan(gc *ast.FuncDecl) bool {
	n, good := 0, 0
	ast.Inspect(gc.Body, func(x ast.Node) bool {
		as, ok := x.(*ast.AssignStmt)
		if !ok {
			return true
		}
		for i, l := range as.Lhs {
			if strings.HasPrefix(exprString(l), "toBeDeleted[") {
				n++
				if i < len(as.Rhs) && exprString(as.Rhs[i]) == "append(toBeDeleted[table.meta],key)" && exprString(l) == "toBeDeleted[table.meta]" {
					good++
				}
			}
		}
		return true
	})
	return n == 1 && good == 1
}

// extractTable: the write path of a table (write_txn.go modify / delete), the collector's low
// watermark (graveyard.go) and the change iterator's cursors (iterator.go, deletetracker.go).
func extractTable(repo string, facts Facts) (string, string) {
	fw := parse(filepath.Join(repo, "write_txn.go"))
	fg := parse(filepath.Join(repo, "graveyard.go"))
	fi := parse(filepath.Join(repo, "iterator.go"))
	fd := parse(filepath.Join(repo, "deletetracker.go"))
	need := func(f *ast.File, name, recv, file string) *ast.FuncDecl {
		d := findFunc(f, name, recv)
		if d == nil {
			fail("%s: %s.%s not found", file, recv, name)
		}
		return d
	}
	mod := need(fw, "modify", "writeTxnState", "write_txn.go")
	del := need(fw, "delete", "writeTxnState", "write_txn.go")
	gc := need(fg, "graveyardWorker", "", "graveyard.go")
	refresh := need(fi, "refresh", "changeIterator", "iterator.go")
	next := need(fi, "Next", "changeIterator", "iterator.go")
	getRev := need(fd, "getRevision", "deleteTracker", "deletetracker.go")
	mc, dc, gcc, rc, nc := ifConds(mod), ifConds(del), ifConds(gc), ifConds(refresh), ifConds(next)

	before := func(a, b token.Pos) bool { return a >= 0 && b >= 0 && a < b }
	t := map[string]bool{
		// modify
		"modifyRejectsUnlocked":      has(mc, "!table.locked") && has(mc, "txn==nil"),
		"modifyAllocatesRevision":    before(incPos(mod, "table.revision"), callPos(mod, "idIndexTxn.insert(")),
		"casNeedsExistingAndEqual":   has(mc, "guardRevision>0") && has(mc, "!oldExists") && has(mc, "oldObj.revision!=guardRevision"),
		"rejectedCasRestoresRevision": countAssign(mod, "table.revision", "oldRevision") == 2,
		"reinsertClearsGraveyard":    before(callPos(mod, "revIndexTxn.insert("), callPos(mod, "GraveyardIndexPos).delete(idKey)")) && graveyardCleanupGuards(mod) == "!oldExists;existed",
		"secondaryAfterPrimary":      before(callPos(mod, "idIndexTxn.insert("), callPos(mod, ".reindex(idKey,oldObj,obj)")),
		// delete
		"deleteRejectsUnlocked":      has(dc, "!table.locked") && has(dc, "txn==nil"),
		"deleteAbsentIsNoop":         has(dc, "!existed") && before(callPos(del, "idIndex.delete(idKey)"), incPos(del, "table.revision")),
		"cadChecksBeforeRevision":    has(dc, "guardRevision>0") && has(dc, "obj.revision!=guardRevision") && before(callPos(del, "idIndex.insert(idKey,obj)"), incPos(del, "table.revision")),
		"graveyardOnlyWithTrackers":  has(dc, "txn.hasDeleteTrackers(meta)") && countAssign(del, "obj.revision", "revision") == 1,
		// collector
		"watermarkStartsAtTableRevision": posOf(gc, func(x ast.Node) bool {
			as, ok := x.(*ast.AssignStmt)
			return ok && len(as.Lhs) == 1 && exprString(as.Lhs[0]) == "lowWatermark" && exprString(as.Rhs[0]) == "table.revision"
		}) >= 0,
		"watermarkIsMinOverTrackers": has(gcc, "rev<lowWatermark") && callPos(gc, "dt.getRevision()") >= 0 && returnsOnly(getRev, "dt.revision.Load()") && trackerLoopIsPlainMin(gc),
		"collectsUpToWatermark":      has(gcc, "obj.revision>lowWatermark") && workListOnlyFromTheScan(gc),
		"collectorRechecksExistence": has(gcc, "existed") && has(gcc, "len(toBeDeleted)==0"),
		// change iterator
		"staleSnapshotDeliversNothing": has(rc, "tableEntry.revision<it.baseRevision"),
		"updatesFromCursorPlusOne":     callPos(refresh, "lowerBoundNext(index.Uint64(it.revision+1))") >= 0,
		"deletesFromCursorPlusOne":     callPos(refresh, "it.dt.deleted(txn,it.deleteRevision+1)") >= 0,
		"cursorsFollowDelivery":        countAssign(next, "it.deleteRevision", "rev") == 1 && countAssign(next, "it.revision", "rev") == 1 && callPos(next, "it.dt.mark(rev)") >= 0,
		"openWatchMeansNothingNew":     has(nc, "it.iter==nil") && has(nc, "it.refresh(txn)"),
	}
	detail := map[string]any{"modify_conds": mc, "delete_conds": dc, "gc_conds": gcc, "refresh_conds": rc, "next_conds": nc}
	for k, v := range t {
		detail[k] = v
	}
	facts["table"] = detail

	keys := []string{"modifyRejectsUnlocked", "modifyAllocatesRevision", "casNeedsExistingAndEqual", "rejectedCasRestoresRevision",
		"reinsertClearsGraveyard", "secondaryAfterPrimary", "deleteRejectsUnlocked", "deleteAbsentIsNoop", "cadChecksBeforeRevision",
		"graveyardOnlyWithTrackers", "watermarkStartsAtTableRevision", "watermarkIsMinOverTrackers", "collectsUpToWatermark",
		"collectorRechecksExistence", "staleSnapshotDeliversNothing", "updatesFromCursorPlusOne", "deletesFromCursorPlusOne",
		"cursorsFollowDelivery", "openWatchMeansNothingNew"}
	var sb strings.Builder
	sb.WriteString("-- GENERATED by tools/extract from the current source (write_txn.go, graveyard.go, iterator.go, deletetracker.go). Do not edit.\n")
	sb.WriteString("import SdbModel.Model.TableFacts\nnamespace Sdb.Gen\n")
	sb.WriteString("/-- the structure of the table write path, the collector and the change iterator as found in the source -/\n")
	sb.WriteString("def tableFacts : Tbl.SourceFacts := {\n")
	for i, k := range keys {
		sep := ","
		if i == len(keys)-1 {
			sep = " }"
		}
		fmt.Fprintf(&sb, "  %s := %v%s\n", k, t[k], sep)
	}
	sb.WriteString("end Sdb.Gen\n")
	return "TableParams.lean", sb.String()
}
