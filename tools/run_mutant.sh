#!/bin/bash
# run_mutant.sh <Cxx><a|b> <check ids...>: apply the seeded change to /repo, run the checks, undo.
set -u
M=$1; shift
ID=${M:0:3}; V=${M:3:1}
VROOT=$(cd "$(dirname "$0")/.." && pwd)
REPO=${VERIF_REPO:-/repo}
P=$VROOT/seeded/$M/patch.diff
cd $REPO
if ! git apply "$P" 2>/dev/null; then
  if ! git apply -3 "$P" 2>/dev/null; then echo "$M: patch does not apply"; git reset -q --hard HEAD; exit 3; fi
  git reset -q   # -3 stages the result
fi
RES=""
for c in "$@"; do
  out=$(cd $VROOT && ./check $c 2>&1)
  if echo "$out" | grep -q "^VIOLATION"; then
    n=$(echo "$out" | grep -c "^VIOLATION")
    nf=$(echo "$out" | grep "^VIOLATION" | grep -c "no-failing-input-found")
    RES="$RES $c:CAUGHT($n,nofail=$nf)"
  else
    RES="$RES $c:missed"
  fi
done
git -C $REPO checkout -- .
git -C $REPO clean -fdq -e '*.go' 2>/dev/null
echo "$M:$RES"
